#!/bin/sh
# offline build of the framework (extractor + witness/replay programs)
set -e
export CARGO_NET_OFFLINE=true
cd /verif/vx && cargo build --release --offline
cp /repo/Cargo.lock /verif/witness/Cargo.lock 2>/dev/null || true
cd /verif/witness && CARGO_TARGET_DIR=/verif/build/witness-target cargo build --release --offline
mkdir -p /verif/build /verif/evidence /verif/replays
verus --version >/dev/null
echo setup-ok
