"""Property-specific side engines, witness search (decoration only) and replay."""
import time
import re, json, os, subprocess, sys

from . import gen

VERIF = gen.VERIF

ASSUME = {
    "_all": [
        "Verus/Z3/rustc are trusted; vstd's specifications of std (Vec, slice, Option, String, iterators) are trusted",
        "extraction: /verif/vx copies item text verbatim by byte span and applies only the logged rewrite rules R1..R32 (DESIGN.md §12.2, §13.12, §13.13; R28 expands the one-rule list macro `delegate!` textually); the rules themselves are trusted to preserve meaning",
        "A-SIZE: DigitString size counters stay below 2^61 (ds_size_axiom); arguments `positions`/`position` are below 2^28 (preconditions)",
        "memory allocation never fails",
    ],
    "C01": ["composition (the words of spell(n) executed in order give decimal(n)) is proved for en, es, fr (n below 10^12) and pt (n below 10^6) (spelling drivers); for it, de, nl and pt from 10^6 up it is NOT proved: the thorough tier gives bounded evidence only (tools/spell.py)",
            "the drivers are stated on exec_group + format_and_value; the corollary for text2digits composes the driver with text2digits' own contract on paper; the scanner (number inside a sentence) is not covered by the drivers",
            "A-SPLIT / A-DASH (English and French hyphenated tens-units): str::split('-') is uninterpreted with one axiom (dash-free pieces joined by single dashes split back into them); the hoisted call exec_group(word.split('-')) is assumed to compute the fold of the word model over the parts",
            "WordSplitter (daachorse) contract assumed; Italian/German/Dutch values assumed to come from Default::default"],
    "C02": ["whole-stream losslessness of tokenize is assumed inside unit scan (proved per token in unit tok); Vec::drain/insert and [T]::join have assumed contracts"],
    "C03": ["partial correctness: termination of iterator-driven loops and of the apply<->exec_group recursion is not proved"],
    "C04": ["multi-word ordinals: composition proved for en (all ranks below 10^12), es and pt (1..1999, four forms) and fr (1..999999, masculine singular, separate words); for it, de, nl not proved (bounded ordinal search in the thorough tier)"],
    "C05": ["f64 value = parse_f64(text), uninterpreted",
            "decimal round trip: proved for en, es, fr, pt (pt below 10^6) as two machine-checked halves in two units (scan::drive_parser generic in the language; lemma_<c>_decimal per language) whose composition is one substitution on paper; for it, de, nl not proved (bounded decimal search in the thorough tier)"],
    "C06": ["f64 value = parse_f64(text), uninterpreted"],
    "C07": ["the two-run statement validator(span) = occurrence is not proved (both directions of the validator, and the scanner's use of push, are specified per call)"],
    "C08": ["the pair statement over [0,99]^2 is a theorem at the level of the word model for en and es (first word of b after a; no conjunction); for the other languages and for the conjunction joiner the thorough tier sweeps that finite space exhaustively on the real crate (bounded stand-in)",
            "the step from 'the word is refused outright' to 'the rewritten text shows two numbers' is the generic scanner contract of C07, composed on paper"],
    "C09": ["inside Verus f64 `<` is uninterpreted (f64_lt); its IEEE facts are proved separately by Kani on the same expression; monotonicity of whole outputs across two thresholds is a two-run statement (paper corollary)",
            "Kani/CBMC's model of IEEE-754 comparison is trusted"],
    "C10": ["rewrite(A S B) = rewrite(A) S rewrite(B) is a two-run statement, not proved; the single-run reset / locality contracts are"],
    "C11": ["the two-run statement is not proved; str::to_lowercase is an uninterpreted spec function"],
    "C13": ["the seven interpreters are contract-only stubs in unit fac (proved in their own units)"],
    "C14": ["no concurrency semantics in the verifier: Send + Sync by rustc's auto traits; history independence follows from the syntactic frame scan only on paper"],
    "C15": ["iter(stream) = batch(stream) is a two-run statement, not proved; the default bodies of the Token trait's hint methods are pinned text with an assumed contract (a change makes the unit undecided; the bounded stand-in then runs tokens that keep the defaults)"],
    "C16": ["zero^z spell(n) is a theorem for en, es, fr (every z, every n below 10^12) and pt (n below 10^6); for it, de, nl not proved (bounded zero-prefix search in the thorough tier)"],
    "C17": ["the two-run statement is not proved; char classes (is_alphanumeric, is_alphabetic, is_whitespace) are uninterpreted"],
    "C18": ["neighbours containing '-' go through the hoisted (assumed) hyphen path of apply"],
}


def assumptions(pid):
    return list(ASSUME["_all"]) + ASSUME.get(pid, [])


FRAME_PATTERNS = [r"\bMutex\b", r"\bRwLock\b", r"\bRefCell\b", r"\bCell\s*<", r"\bUnsafeCell\b", r"\bAtomic[A-Z]\w*", r"\bOnceCell\b",
                  r"\bOnceLock\b", r"\bLazyLock\b", r"\bLazyCell\b", r"\blazy_static!", r"\bthread_local!", r"\bstatic\s+mut\b", r"\bCondvar\b",
                  r"\bmpsc\b", r"\bunsafe\b",
                  # output / environment / files / clocks: a call's result may only depend on its arguments, and nothing is printed
                  r"\b(e?print(ln)?|dbg)!", r"\bstd::(fs|env|io|net|process|time)\b", r"\b(stdout|stderr|stdin)\s*\(", r"\bFile::", r"\bOpenOptions\b",
                  r"\bInstant\b", r"\bSystemTime\b", r"\brand::"]
FRAME_FILES = ["src/lang/mod.rs", "src/lang/en/mod.rs", "src/lang/fr/mod.rs", "src/lang/es/mod.rs", "src/lang/pt/mod.rs", "src/lang/it/mod.rs",
               "src/lang/de/mod.rs", "src/lang/nl/mod.rs", "src/tokenizer.rs", "src/word_to_digit.rs", "src/digit_string.rs", "src/lib.rs",
               "src/error.rs"] + ["src/lang/%s/vocabulary.rs" % c for c in ("en", "fr", "es", "pt", "it", "de", "nl")]


def strip_noncode(text):
    """drop comments, string literals and the #[cfg(test)] module (frame scan looks at code only)"""
    i = text.find("#[cfg(test)]")
    if i >= 0:
        text = text[:i]
    text = re.sub(r"//[^\n]*", "", text)
    text = re.sub(r"/\*.*?\*/", "", text, flags=re.S)
    text = re.sub(r'"(?:\\.|[^"\\])*"', '""', text)
    return text


KANI_FLOAT = ["nan_threshold_hides_nothing", "nonpositive_threshold_hides_nothing", "raising_the_threshold_is_monotone", "value_at_threshold_is_not_small", "reachability"]
KANI_FLOAT_TEXT = {
    "nan_threshold_hides_nothing": "forall v: f64. !(v < NaN): a NaN threshold rewrites everything",
    "nonpositive_threshold_hides_nothing": "forall v >= 0, t <= 0. !(v < t): a threshold of zero or below rewrites everything",
    "raising_the_threshold_is_monotone": "forall v, t1 <= t2. v < t1 ==> v < t2: raising the threshold never adds a rewrite",
    "value_at_threshold_is_not_small": "forall v. !(v < v): small means strictly below the threshold",
    "reachability": "vacuity guard: the assumptions of the lemmas are satisfiable (kani::cover)",
}


def kani_float_lemmas():
    """C09: complete (loop-free, full-domain f64) Kani proofs about the comparison expression of the scanner. Cached by the hash of
    the generated harness file."""
    import hashlib
    unit = gen.load_unit("scan")
    expr = None
    for src in unit["sources"]:
        for h in src.get("expr_hoists", []):
            if h["name"] == "vx_below_threshold":
                expr = h["text"].strip()
    out = []
    if expr is None:
        return [{"id": "kani::float::" + k, "fn": "FindNumbers::number_end", "kind": "kani-lemma", "props": ["C09"], "unit": "kanifl", "src": "kanifl/lib.rs.tmpl",
                 "text": KANI_FLOAT_TEXT[k], "status": "undecided", "diag": [{"msg": "overlay no longer names the comparison expression (lost anchor)"}]} for k in KANI_FLOAT], ""
    text = open(os.path.join(VERIF, "kanifl", "lib.rs.tmpl"), encoding="utf-8").read().replace("@EXPR@", expr)
    key = hashlib.sha256(text.encode()).hexdigest()
    cdir = os.path.join(VERIF, "build", "cache")
    os.makedirs(cdir, exist_ok=True)
    cf = os.path.join(cdir, "kanifl_" + key + ".json")
    if os.path.exists(cf) and not os.environ.get("VERIF_NOCACHE"):
        res = json.load(open(cf))
    else:
        import shutil, tempfile
        wd = os.path.join(VERIF, "build", "kanifl")
        shutil.rmtree(wd, ignore_errors=True)
        os.makedirs(os.path.join(wd, "src"))
        shutil.copy(os.path.join(VERIF, "kanifl", "Cargo.toml"), os.path.join(wd, "Cargo.toml"))
        open(os.path.join(wd, "src", "lib.rs"), "w", encoding="utf-8").write(text)
        env = dict(os.environ, CARGO_NET_OFFLINE="true", CARGO_TARGET_DIR=os.path.join(VERIF, "build", "kanifl-target"))
        t0 = time.time()
        try:
            p = subprocess.run(["cargo", "kani"], cwd=wd, env=env, capture_output=True, text=True, timeout=900)
            outp = p.stdout + "\n" + p.stderr
        except Exception as e:
            outp = "kani could not be run: %r" % (e,)
        res = {"wall_s": round(time.time() - t0, 1), "harness": {}}
        # per-harness verdict: "Checking harness proofs::<name>..." ... "VERIFICATION:- SUCCESSFUL|FAILED"
        for m in re.finditer(r"Checking harness proofs::(\w+)\.\.\.(.*?)VERIFICATION:- (\w+)", outp, re.S):
            body = m.group(2)
            res["harness"][m.group(1)] = {"verdict": m.group(3), "covers_satisfied": len(re.findall(r"Status: SATISFIED", body)),
                                           "covers_total": len(re.findall(r"cover\.\d+", body)), "tail": body[-400:]}
        if len(res["harness"]) == len(KANI_FLOAT):
            json.dump(res, open(cf, "w"))
        else:
            res["error"] = outp[-800:]
    for k in KANI_FLOAT:
        h = res["harness"].get(k)
        o = {"id": "kani::float::" + k, "fn": "FindNumbers::number_end (comparison `%s`)" % expr, "kind": "kani-lemma", "props": ["C09"], "unit": "kanifl",
             "src": "kanifl/lib.rs.tmpl", "text": KANI_FLOAT_TEXT[k], "status": "discharged"}
        if h is None:
            o["status"] = "undecided"
            o["diag"] = [{"msg": "no verdict from Kani: " + res.get("error", "")[-300:]}]
        elif h["verdict"] != "SUCCESSFUL":
            o["status"] = "failed"
            o["diag"] = [{"msg": "Kani: " + h["tail"][-300:], "rendered": h["tail"][-300:]}]
        elif k == "reachability" and h["covers_satisfied"] < 2:
            o["status"] = "undecided"
            o["diag"] = [{"msg": "vacuity guard: a cover is not satisfiable"}]
        out.append(o)
    return out, "cargo kani (in build/kanifl: kanifl/lib.rs.tmpl with the scanner's comparison `%s` substituted; %s s%s)" % (expr, res.get("wall_s"), "" if not os.path.exists(cf) else ", result cached by harness hash")


def kani_hoisted_ds():
    """C12: bounded validation (slice length <= 4, all byte values) of the assumed specs of the closure chains hoisted from digit_string.rs.
    Returns a bounded-stand-in record (never an obligation). Cached by the hash of the generated harness."""
    import hashlib, shutil
    unit = gen.load_unit("ds")
    pins = {}
    for src in unit["sources"]:
        for h in src.get("hoists", []):
            pins[h["name"]] = h.get("pin", "").strip()
        for k, c in src.get("contracts", {}).items():
            if k == "all_zeros":
                pins["all_zeros"] = c.get("pin_body", "").strip()
    need = ("all_zeros", "vx_all_zero_bytes", "vx_count_leading_zero_bytes")
    rec = {"search": "kani-hoisted-ds", "bound": "every slice of length <= 4 over all byte values (unwind 6): the verbatim closure chains all_zeros / is_free / shift's "
           "leading-zero count equal the executable restatement of their assumed specs (zeros, lead_zeros)", "cases": None, "found": False}
    if any(not pins.get(k) for k in need):
        rec["note"] = "pinned texts not found in the overlay: not run"
        return rec
    text = open(os.path.join(VERIF, "kanihoist", "lib.rs.tmpl"), encoding="utf-8").read()
    text = text.replace("@ALLZ@", pins["all_zeros"]).replace("@AZB@", pins["vx_all_zero_bytes"]).replace("@CLZ@", pins["vx_count_leading_zero_bytes"])
    key = hashlib.sha256(text.encode()).hexdigest()
    cdir = os.path.join(VERIF, "build", "cache")
    os.makedirs(cdir, exist_ok=True)
    cf = os.path.join(cdir, "kanihoist_" + key + ".json")
    if os.path.exists(cf) and not os.environ.get("VERIF_NOCACHE"):
        res = json.load(open(cf))
    else:
        wd = os.path.join(VERIF, "build", "kanihoist")
        shutil.rmtree(wd, ignore_errors=True)
        os.makedirs(os.path.join(wd, "src"))
        shutil.copy(os.path.join(VERIF, "kanihoist", "Cargo.toml"), os.path.join(wd, "Cargo.toml"))
        open(os.path.join(wd, "src", "lib.rs"), "w", encoding="utf-8").write(text)
        env = dict(os.environ, CARGO_NET_OFFLINE="true", CARGO_TARGET_DIR=os.path.join(VERIF, "build", "kanifl-target"))
        t0 = time.time()
        try:
            p = subprocess.run(["cargo", "kani"], cwd=wd, env=env, capture_output=True, text=True, timeout=900)
            outp = p.stdout + "\n" + p.stderr
        except Exception as e:
            outp = "kani could not be run: %r" % (e,)
        m = re.search(r"VERIFICATION:- (\w+)", outp)
        res = {"wall_s": round(time.time() - t0, 1), "verdict": m.group(1) if m else None, "covers": len(re.findall(r"Status: SATISFIED", outp)), "tail": outp[-600:]}
        if m:
            json.dump(res, open(cf, "w"))
    rec["cases"] = "symbolic: 4 bytes x lengths 0..4"
    rec["kani_verdict"] = res.get("verdict")
    rec["covers_satisfied"] = res.get("covers")
    rec["wall_s"] = res.get("wall_s")
    rec["found"] = res.get("verdict") == "FAILED"
    if res.get("verdict") != "SUCCESSFUL":
        rec["note"] = res.get("tail", "")[-300:]
    return rec


def _impl_methods(code, pattern):
    """names of the fns at depth 1 of every `impl LangInterpreter for <pattern>` block of (comment-free) source text"""
    found = {}
    for m in re.finditer(r"impl\s+LangInterpreter\s+for\s+(" + pattern + r")\s*\{", code):
        depth, i, start = 1, m.end(), m.end()
        names = []
        while i < len(code) and depth > 0:
            ch = code[i]
            if ch == "{":
                depth += 1
            elif ch == "}":
                depth -= 1
            elif depth == 1 and code.startswith("fn ", i) and (i == 0 or not (code[i - 1].isalnum() or code[i - 1] == "_")):
                mm = re.match(r"fn\s+([A-Za-z_0-9]+)", code[i:])
                if mm:
                    names.append(mm.group(1))
            i += 1
        found.setdefault(m.group(1), []).extend(names)
        _ = start
    return found


def facade_covers_overrides():
    """C13, structural: a trait method that a built-in interpreter implements itself but `impl LangInterpreter for Language` does not
    define runs the trait's default body through the facade. Whether that default equals the interpreter's own version is not something
    a contract in reach decides, so a gap makes the property UNDECIDED (the facade stand-in then compares both on the real crate)."""
    o = {"id": "fac::Language::forwards-every-overridden-method", "fn": "impl LangInterpreter for Language", "kind": "frame", "props": ["C13"], "unit": "fac",
         "src": "src/lang/mod.rs", "status": "discharged",
         "text": "every LangInterpreter method that one of the seven interpreters implements itself is also defined by the facade (delegate! body, expanded) - none falls back to the trait default"}
    try:
        mod = strip_noncode(open(os.path.join(gen.REPO, "src/lang/mod.rs"), encoding="utf-8").read())
        fac = set()
        mm = re.search(r"macro_rules!\s*delegate\s*\{", mod)
        if mm:
            fac |= set(re.findall(r"\bfn\s+([A-Za-z_0-9]+)", mod[mm.end():]))
        for names in _impl_methods(mod, "Language").values():
            fac |= set(names)
        gaps = []
        for code in ["en", "fr", "es", "pt", "it", "de", "nl"]:
            src = strip_noncode(open(os.path.join(gen.REPO, f"src/lang/{code}/mod.rs"), encoding="utf-8").read())
            for ty, names in _impl_methods(src, r"[A-Z][A-Za-z0-9]*").items():
                for n in names:
                    if n not in fac:
                        gaps.append({"msg": f"src/lang/{code}/mod.rs: `{ty}` implements `{n}` itself, `Language` does not forward it (the facade runs the trait default)"})
        if not fac:
            o["status"] = "undecided"
            o["diag"] = [{"msg": "no method found in the facade impl (lost anchor)"}]
        elif gaps:
            o["status"] = "undecided"
            o["diag"] = gaps
    except Exception as e:  # noqa
        o["status"] = "undecided"
        o["diag"] = [{"msg": "scan failed: " + str(e)[:200]}]
    return o


def side_checks(pid, tier, seed):
    out = {"obligations": [], "cmd": "", "trusted": [], "engine": "", "bounded": []}
    if pid == "C12" and (tier == "thorough" or os.environ.get("VERIF_KANI_HOISTED") == "1"):
        rec = kani_hoisted_ds()
        out["bounded"].append(rec)
        if rec.get("found"):
            # the assumed spec of a hoisted helper is contradicted on a small slice: every proof that uses it is void -> undecided, never an alarm
            out["obligations"].append({"id": "kani::hoisted::ds-assumed-specs", "fn": "all_zeros / vx_all_zero_bytes / vx_count_leading_zero_bytes", "kind": "assumption-check",
                                       "props": ["C12"], "unit": "kanihoist", "src": "kanihoist/lib.rs.tmpl", "text": "assumed specs of the hoisted closure chains hold on slices of length <= 4",
                                       "status": "undecided", "diag": [{"msg": "Kani contradicts an assumed spec: " + str(rec.get("note", ""))[-200:]}]})
        out["cmd"] = "cargo kani (in build/kanihoist; bounded: slice length <= 4)"
        return out
    if pid == "C09":
        obl, cmd = kani_float_lemmas()
        out["obligations"] = obl
        out["cmd"] = cmd
        out["engine"] = "Kani 0.68 / CBMC 6.11 (loop-free harnesses over full-domain symbolic f64: complete float lemmas)"
        out["trusted"] = ["Kani/CBMC's IEEE-754 model of f64 comparison", "values of numerals are non-negative (the digit strings this crate parses carry no sign)"]
        return out
    if pid == "C13":
        out["obligations"].append(facade_covers_overrides())
        return out
    if pid != "C14":
        return out
    # (1) frame condition, syntactic: the code on the call path owns no interior-mutable / global state and has no unsafe block
    for rel in FRAME_FILES:
        path = os.path.join(gen.REPO, rel)
        oid = f"frame::{rel}::no-interior-mutability"
        o = {"id": oid, "fn": rel, "kind": "frame", "props": ["C14"], "unit": "frame", "src": rel,
             "text": "no Mutex/RwLock/RefCell/Cell/atomics/once-cells/lazy statics/static mut/thread_local/unsafe, no printing, file, environment, clock or random access in non-test code", "status": "discharged"}
        if not os.path.exists(path):
            o["status"] = "undecided"
            o["diag"] = [{"msg": "file not found (lost anchor)"}]
        else:
            code = strip_noncode(open(path, encoding="utf-8").read())
            hits = []
            for k, line in enumerate(code.split("\n")):
                for pat in FRAME_PATTERNS:
                    if re.search(pat, line):
                        hits.append({"msg": f"{rel}:{k + 1}: `{line.strip()[:120]}` matches {pat}", "rendered": f"{rel}:{k + 1}: {line.strip()[:160]}"})
            if hits:
                o["status"] = "failed"
                o["diag"] = hits[:10]
        out["obligations"].append(o)
    # (2) Send + Sync, decided by rustc's trait solver on static assertions against the real crate
    sdir = os.path.join(VERIF, "sendsync")
    env = dict(os.environ, CARGO_TARGET_DIR=WTARGET, CARGO_NET_OFFLINE="true")
    try:
        import shutil
        shutil.copy(os.path.join(gen.REPO, "Cargo.lock"), os.path.join(sdir, "Cargo.lock"))
    except Exception:
        pass
    p = subprocess.run(["cargo", "build", "--offline", "--message-format=short"], cwd=sdir, env=env, capture_output=True, text=True)
    o = {"id": "rustc::sendsync::8-static-assertions", "fn": "assert_send_sync", "kind": "trait-bound", "props": ["C14"], "unit": "sendsync",
         "src": "sendsync/src/main.rs", "text": "English, French, German, Italian, Spanish, Dutch, Portuguese, Language: Send + Sync", "status": "discharged"}
    if p.returncode != 0:
        if "E0277" in p.stderr:
            o["status"] = "failed"
            o["diag"] = [{"msg": l, "rendered": l} for l in p.stderr.split("\n") if "E0277" in l or "cannot be" in l][:8]
        else:
            o["status"] = "undecided"
            o["diag"] = [{"msg": p.stderr[-600:]}]
    out["obligations"].append(o)
    out["cmd"] = "cargo build --offline (in /verif/sendsync, against /repo)"
    out["engine"] = "rustc trait solver (Send + Sync static assertions) + syntactic frame scan"
    out["trusted"] = ["rustc's auto-trait inference for Send/Sync", "frame scan is syntactic: it sees the files listed in FRAME_FILES, not dependencies (daachorse, phf, bitflags)"]
    return out


WTARGET = os.path.join(VERIF, "build", "witness-target")


def build_witness():
    """(re)build the witness programs against /repo's current working tree"""
    env = dict(os.environ, CARGO_TARGET_DIR=WTARGET, CARGO_NET_OFFLINE="true")
    wdir = os.path.join(VERIF, "witness")
    try:
        import shutil
        shutil.copy(os.path.join(gen.REPO, "Cargo.lock"), os.path.join(wdir, "Cargo.lock"))
    except Exception:
        pass
    p = subprocess.run(["cargo", "build", "--release", "--offline", "-q"], cwd=wdir, env=env,
                       capture_output=True, text=True)
    return p.returncode == 0, p.stderr[-2000:]


def wbin(name):
    return os.path.join(WTARGET, "release", name)


def find_witness(pid, obligation):
    """bounded search for a concrete failing input on the REAL crate; decoration only, decides nothing"""
    fn = obligation.get("fn", "")
    try:
        if obligation.get("unit") == "ds" and fn.startswith("DigitString::"):
            ok, err = build_witness()
            if not ok:
                return None
            p = subprocess.run([wbin("ds_witness"), fn.split("::")[1], "3"], capture_output=True, text=True, timeout=120)
            w = json.loads(p.stdout.strip().split("\n")[-1])
            if w.get("kind") == "ds_ops":
                w["fn"] = fn.split("::")[1]
                return w
        unit = obligation.get("unit", "")
        if pid == "C14" and unit.startswith("lang_"):
            # a call that writes to the process's standard streams
            code = unit[5:]
            rows_path = os.path.join(VERIF, "specs", "templates", f"{code}_rows.json")
            ok, err = build_witness()
            if ok and os.path.exists(rows_path):
                for row in json.load(open(rows_path)):
                    w = {"kind": "call", "fn": "text2digits", "lang": code, "text": row["word"], "expect": {"no_stderr": True}}
                    p = subprocess.run([wbin("t2n_call"), json.dumps(w)], capture_output=True, text=True, timeout=20)
                    if p.stderr.strip():
                        w["what"] = "the call wrote to stderr: " + p.stderr.strip()[:200]
                        return w
            return None
        if unit.startswith("lang_") and pid not in ("C10", "C11", "C17"):
            code = unit[5:]
            rows_path = os.path.join(VERIF, "specs", "templates", f"{code}_rows.json")
            ok, err = build_witness()
            if ok and pid == "C16":
                # k spoken zeros + a spelled number -> k zeros + its digits
                zero = {"en": "zero", "fr": "zéro", "es": "cero", "pt": "zero", "it": "zero", "de": "null", "nl": "nul"}
                phrases = {"en": [("one million", "1000000"), ("one hundred", "100"), ("one thousand", "1000"), ("twenty", "20"),
                                  ("one hundred twenty five thousand", "125000"), ("five thousand", "5000"), ("twenty thousand", "20000"), ("two million", "2000000")],
                           "fr": [("un million", "1000000"), ("cent", "100"), ("mille", "1000"), ("cent vingt-cinq mille", "125000"), ("cinq mille", "5000"), ("cinq cents", "500")],
                           "es": [("un millón", "1000000"), ("cien", "100"), ("mil", "1000"), ("ciento veinticinco mil", "125000"), ("cinco mil", "5000")],
                           "pt": [("um milhão", "1000000"), ("cem", "100"), ("mil", "1000"), ("cento e vinte e cinco mil", "125000"), ("cinco mil", "5000")],
                           "it": [("un milione", "1000000"), ("un miliardo", "1000000000"), ("cento", "100"), ("mille", "1000"), ("cinque mila", "5000"), ("due milioni", "2000000")],
                           "de": [("zwei millionen", "2000000"), ("hundert", "100"), ("tausend", "1000"), ("fünf tausend", "5000")],
                           "nl": [("een miljoen", "1000000"), ("honderd", "100"), ("duizend", "1000"), ("vijf duizend", "5000")]}
                for k in (1, 2, 3, 6):
                    for ph, dg in phrases.get(code, []):
                        w = {"kind": "call", "fn": "text2digits", "lang": code, "text": (zero[code] + " ") * k + ph,
                             "expect": {"equals": "Ok(%s)" % json.dumps("0" * k + dg)}}
                        p = subprocess.run([wbin("t2n_call"), json.dumps(w)], capture_output=True, text=True, timeout=20)
                        if p.returncode == 1:
                            w["what"] = p.stdout.strip().replace("\n", " | ")
                            return w
            if ok and os.path.exists(rows_path):
                for row in json.load(open(rows_path)):
                    if row.get("expect") is None or row.get("known_finding"):
                        continue
                    w = {"kind": "call", "fn": "text2digits", "lang": code, "text": row["word"],
                         "expect": {"equals": "Ok(%s)" % json.dumps(row["expect"], ensure_ascii=False)}}
                    p = subprocess.run([wbin("t2n_call"), json.dumps(w)], capture_output=True, text=True, timeout=20)
                    if p.returncode == 1:
                        w["what"] = p.stdout.strip().replace("\n", " | ")
                        return w
        if pid == "C06":
            # ordinal + decimal separator + digit: the ordinal must keep its marker
            ok, err = build_witness()
            seps = {"en": "point", "fr": "virgule", "es": "coma", "pt": "vírgula", "it": "virgola", "de": "komma", "nl": "komma"}
            for code, sep in seps.items():
                rows_path = os.path.join(VERIF, "specs", "templates", f"{code}_rows.json")
                if not (ok and os.path.exists(rows_path)):
                    continue
                rows = [r for r in json.load(open(rows_path)) if r.get("expect")]
                ords = [r for r in rows if r.get("marker") and not r["expect"].isdigit()][:6]
                units = [r for r in rows if r["expect"].isdigit() and len(r["expect"]) == 1 and r["expect"] != "0"][:2]
                for o_ in ords:
                    for u_ in units:
                        text = f"{o_['word']} {sep} {u_['word']}"
                        w = {"kind": "call", "fn": "replace", "lang": code, "text": text, "threshold": 0.0,
                             "expect": {"starts_with": o_["expect"]}}
                        p = subprocess.run([wbin("t2n_call"), json.dumps(w)], capture_output=True, text=True, timeout=20)
                        if p.returncode == 1:
                            w["what"] = p.stdout.strip().replace("\n", " | ")
                            return w
        if fn == "get_interpreter_for":
            ok, err = build_witness()
            if ok:
                cands = [(c, True) for c in ["de", "en", "es", "fr", "it", "nl", "pt"]] + [(c, False) for c in ["", "e", "eng", "EN", "xx", "12", "p t"]]
                for (c, some) in cands:
                    w = {"kind": "call", "fn": "lookup", "text": c, "expect": {"is_some": some}}
                    p = subprocess.run([wbin("t2n_call"), json.dumps(w)], capture_output=True, text=True, timeout=20)
                    if p.returncode == 1:
                        w["what"] = p.stdout.strip().replace("\n", " | ")
                        return w
        if pid in ("C11", "C17", "C10"):
            ok, err = build_witness()
            if ok:
                p = subprocess.run([wbin("meta_witness"), {"C11": "case", "C17": "ws", "C10": "ctx"}[pid], gen.REPO], capture_output=True, text=True, timeout=300)
                w = json.loads(p.stdout.strip().split("\n")[-1])
                if w.get("kind") == "meta":
                    return w
        # generic search for a panicking entry-point call (degenerate inputs), used for body / C03 obligations
        if pid == "C03" or obligation.get("kind") == "body":
            ok, err = build_witness()
            if not ok:
                return None
            texts = ["", " ", "\t\n", "-", "--", "- -", "'", ".", "a-", "-a", "\u00a0", "\u0301", "o", "zero-", "un-", "point", "zero point"]
            for code in ["en", "fr", "es", "pt", "it", "de", "nl"]:
                for t in texts:
                    for f in ["text2digits", "replace"]:
                        w = {"kind": "call", "fn": f, "lang": code, "text": t, "threshold": 0.0, "expect": {"no_panic": True}}
                        p = subprocess.run([wbin("t2n_call"), json.dumps(w)], capture_output=True, text=True, timeout=20)
                        if p.returncode == 1:
                            w["what"] = p.stdout.strip().replace("\n", " | ")
                            return w
    except Exception as e:
        return None
    return None


STANDIN_MODES = {"C02": ["ident", "stream"], "C03": ["total"], "C13": ["facade"], "C10": ["punct"], "C16": ["ozero"], "C05": ["dec"], "C06": ["wf"], "C07": ["consist"], "C09": ["thr"], "C11": ["ncase"], "C15": ["iter"], "C18": ["orule"]}
STANDIN_BOUND = {
    "total": "about 70 texts (empty, whitespace-only, hyphen-only, combining characters, lone link / separator words, sequences of ordinals and cardinals with commas, repeated scale words, a 160-word number, the 29 stream phrases) x 7 languages x thresholds {0, 10, 100, +inf, -inf, NaN, -1} through text2digits, replace_numbers_in_text, find_numbers and find_numbers_iter: no panic, the lazy iterator ends; every ordered pair of words of each language's grammar table (plus function words) alone, after a zero word and around one (about 600 000 phrases) through text2digits and replace_numbers_in_text: no panic",
    "ident": "22 texts without number words x 7 languages x thresholds {0,10} must come back identical; 7 number phrases x 6 punctuation frames",
    "stream": "29 token streams x thresholds {0,10} through replace_numbers_in_stream with tokens that record their source words",
    "dec": "16 decimal phrases (7 languages): rewritten text and Occurence.value",
    "wf": "29 token streams (7 languages, pause / not-a-number hints) x thresholds {0,10,1000}: spans ordered, text/value/is_ordinal consistent, for find_numbers and for the lazy find_numbers_iter; a Spanish fraction has the value 1/n; a German cardinal and ordinal above 2^53 keep every digit in the text",
    "consist": "29 token streams x 3 thresholds: validator(span words) == occurrence text; at threshold 0 no lone number word is left out",
    "thr": "29 token streams x 3 thresholds: threshold only hides small lone numbers; 3 linked-number sentences; about 11 000 systematic sequences (en, fr) of 2-3 numbers out of 6 (small / large x cardinal / ordinal) with a comma, nothing, an ordinary word, a period or a token of digits between them, under the property's own characterisation: reported at threshold 10 iff not small or a same-kind neighbour; every single-word entry of each language's INSIGNIFICANT set (read from /repo's vocabulary files) between two small numbers: both reported, and an ordinary word in the same place: neither",
    "iter": "29 token streams x 3 thresholds: find_numbers_iter == find_numbers; hint-free streams also with tokens that keep the trait's default hint methods",
    "orule": "17 English sentences with 'o' next to words, punctuation and no-break spaces, and after a swallowed 'and' / 'point' while a number is pending; plus 270 systematic neighbourhoods: 10 left contexts x 9 right contexts (number word, ordinary word, comma, dash, other punctuation, text boundary) x 3 kinds of whitespace",
    "ncase": "11 words with non-ASCII letters, those letters capitalised; every single-word linking word of each language (from /repo's vocabulary files) upper-cased and capitalised between two small numbers, as a plain token and as a token flagged not-a-number, number words in lower and upper case: same occurrences as in lower case",
    "ozero": "15 phrases (7 languages): a zero word - in English also 'o' - after a non-zero number starts a new numeral, before a number it stays in front, alone it is 0",
    "punct": "two pairs of numbers that could combine (hundred + twenty, sixty + five, ...) per language x 14 punctuation separators (comma, semicolon, colon, !, ?, spaced dash and en dash, slash, brackets, ellipsis, quote; with and without spaces): rewritten as a p b at threshold 0",
    "facade": "per language every word of its grammar table (plus articles, conjunction, separator word, an ordinary word, a comma) alone and every ordered pair of them (about 200 000 phrases), and the 29 stream phrases: "
              "text2digits, replace_numbers_in_text (thresholds 0 and 10) and find_numbers (threshold 10) through the concrete interpreter type and through Language must agree",
    "phrases": "per language about 2 800 integers below 10^12 (all of 0..1200, 1900..2030, structured multiples of 10^3/10^6/10^9, 1 500 random "
               "ones from VERIF_SEED; pt below 10^6; de without the known 'eine' cases) spelled by tools/spell.py: text2digits == digits and the phrase "
               "inside a sentence is rewritten as one number; for C16 with one and two zero words in front",
    "variants": "accepted orthographic variants of about 1 800 integers: en hyphen->space and British 'and'; fr hyphen->space and Belgian/Swiss tens "
                "(septante, huitante/octante, nonante); pt Brazilian teens; de thousands said apart; es unaccented veintidos/veintitres/dieciseis",
    "decimals": "about 80 integer parts x 58 fraction digit strings (1..6 digits, with leading zeros) per language: spell(n) + separator word + fraction "
                "(digit by digit in en/de, zero words then a spelled number elsewhere) is rewritten as n<mark>d",
    "pairs": "EXHAUSTIVE over the pair space of the property: every (a, b) in [1,99] x [0,99] and joiner in {space, conjunction} for the seven languages "
             "(19 800 phrases each; French without 'neuf' alone and without the word-ambiguous 'vingt quatre vingt' shapes): the rewriting is 'a [conj] b' or "
             "the one number spelled by exactly those words (conjunction optional, glued forms compared by letters)",
    "dictate": "digit dictation: every digit string of length 1..4 and 2 000 random ones of length 5..8 per language, said digit by digit: "
               "zeros attach to the following non-zero digit, trailing zeros stand alone, nothing else is fused",
    "ordinals": "ordinals spelled by tools/spell.py (masculine singular): ranks 1..1200 plus structured and random ranks below 10^6 for en, fr, de, it, nl; "
                "1..1999 for es (without the bare 'segundo'), 1..999 for pt: text2digits == digits + marker, and the same inside a sentence",
    "rows": "every word of the grammar tables of all seven languages, alone, through text2digits",
    "zeros": "k in {1,2,3,6} zero words before 4-8 phrases per language",
    "meta": "sentences harvested from /repo's own test literals under the metamorphic relation of the property (C17: every space replaced by one of twelve kinds / amounts of Unicode whitespace, one kind at a time; C11: upper-cased; C10: two sentences joined by a strong separator)",
}


def standin(pid):
    """bounded stand-in on the REAL crate, used when the verifier cannot decide (never counted as proof).
    returns (witness or None, [description of the searches run])"""
    ran = []
    ok, err = build_witness()
    if not ok:
        return None, ["witness programs could not be built: " + err[-300:]]
    for m in STANDIN_MODES.get(pid, []):
        p = subprocess.run([wbin("standin"), m, gen.REPO], capture_output=True, text=True, timeout=600)
        try:
            w = json.loads(p.stdout.strip().split("\n")[-1])
        except Exception:
            continue
        ran.append({"search": m, "bound": STANDIN_BOUND[m], "cases": w.get("cases"), "found": w.get("kind") == "standin"})
        if w.get("kind") == "standin":
            return w, ran
    if pid == "C05":
        seed = int(os.environ.get("VERIF_SEED", "0") or 0)
        total = 0
        for code in ["en", "fr", "es", "pt", "it", "de", "nl"]:
            tsv = os.path.join(VERIF, "build", f"decimals_{code}.tsv")
            with open(tsv, "w", encoding="utf-8") as f:
                subprocess.run([sys.executable, os.path.join(VERIF, "tools", "spell.py"), str(seed), "decimals", code], stdout=f, text=True, timeout=300)
            p = subprocess.run([wbin("standin"), "pairs", tsv], capture_output=True, text=True, timeout=900)
            try:
                w = json.loads(p.stdout.strip().split("\n")[-1])
            except Exception:
                continue
            total += w.get("cases", 0) or 0
            if w.get("kind") == "call":
                ran.append({"search": "decimals/" + code, "bound": STANDIN_BOUND["decimals"], "cases": total, "found": True})
                return w, ran
        ran.append({"search": "decimals", "bound": STANDIN_BOUND["decimals"], "cases": total, "found": False})
    if pid == "C08":
        total = 0
        for code in ["en", "fr", "es", "pt", "it", "de", "nl"]:
            tsv = os.path.join(VERIF, "build", f"pairs_{code}.tsv")
            with open(tsv, "w", encoding="utf-8") as f:
                subprocess.run([sys.executable, os.path.join(VERIF, "tools", "spell.py"), "0", "pairs", code], stdout=f, text=True, timeout=300)
            p = subprocess.run([wbin("standin"), "pairs", tsv], capture_output=True, text=True, timeout=900)
            try:
                w = json.loads(p.stdout.strip().split("\n")[-1])
            except Exception:
                continue
            total += w.get("cases", 0) or 0
            if w.get("kind") == "call":
                ran.append({"search": "pairs/" + code, "bound": STANDIN_BOUND["pairs"], "cases": total, "found": True})
                return w, ran
        ran.append({"search": "pairs", "bound": STANDIN_BOUND["pairs"], "cases": total, "found": False, "exhaustive": True})
        seed = int(os.environ.get("VERIF_SEED", "0") or 0)
        total = 0
        for code in ["en", "fr", "es", "pt", "it", "de", "nl"]:
            tsv = os.path.join(VERIF, "build", f"dictate_{code}.tsv")
            with open(tsv, "w", encoding="utf-8") as f:
                subprocess.run([sys.executable, os.path.join(VERIF, "tools", "spell.py"), str(seed), "dictate", code], stdout=f, text=True, timeout=300)
            p = subprocess.run([wbin("standin"), "pairs", tsv], capture_output=True, text=True, timeout=900)
            try:
                w = json.loads(p.stdout.strip().split("\n")[-1])
            except Exception:
                continue
            total += w.get("cases", 0) or 0
            if w.get("kind") == "call":
                ran.append({"search": "dictate/" + code, "bound": STANDIN_BOUND["dictate"], "cases": total, "found": True})
                return w, ran
        ran.append({"search": "dictate", "bound": STANDIN_BOUND["dictate"], "cases": total, "found": False})
    if pid == "C04":
        seed = int(os.environ.get("VERIF_SEED", "0") or 0)
        total = 0
        for code in ["en", "fr", "es", "pt", "it", "de", "nl"]:
            tsv = os.path.join(VERIF, "build", f"ordinals_{code}.tsv")
            with open(tsv, "w", encoding="utf-8") as f:
                subprocess.run([sys.executable, os.path.join(VERIF, "tools", "spell.py"), str(seed), "ordinals", code], stdout=f, text=True, timeout=300)
            p = subprocess.run([wbin("standin"), "phrases", tsv], capture_output=True, text=True, timeout=900)
            try:
                w = json.loads(p.stdout.strip().split("\n")[-1])
            except Exception:
                continue
            total += w.get("cases", 0) or 0
            if w.get("kind") == "call":
                ran.append({"search": "ordinals/" + code, "bound": STANDIN_BOUND["ordinals"], "cases": total, "found": True})
                return w, ran
        ran.append({"search": "ordinals", "bound": STANDIN_BOUND["ordinals"], "cases": total, "found": False})
    if pid in ("C01", "C16"):
        # composition: whole spelled numbers from the independent spellers of tools/spell.py through the real validator and rewriter
        seed = int(os.environ.get("VERIF_SEED", "0") or 0)
        total = 0
        for code in ["en", "fr", "es", "pt", "it", "de", "nl"]:
            tsv = os.path.join(VERIF, "build", f"phrases_{code}.tsv")
            with open(tsv, "w", encoding="utf-8") as f:
                subprocess.run([sys.executable, os.path.join(VERIF, "tools", "spell.py"), str(seed), code], stdout=f, text=True, timeout=300)
            p = subprocess.run([wbin("standin"), "phrases", tsv] + (["zeros"] if pid == "C16" else []), capture_output=True, text=True, timeout=900)
            try:
                w = json.loads(p.stdout.strip().split("\n")[-1])
            except Exception:
                continue
            total += w.get("cases", 0) or 0
            if w.get("kind") == "call":
                ran.append({"search": "phrases/" + code, "bound": STANDIN_BOUND["phrases"], "cases": total, "found": True})
                return w, ran
        ran.append({"search": "phrases", "bound": STANDIN_BOUND["phrases"], "cases": total, "found": False})
        if pid == "C01":
            tsv = os.path.join(VERIF, "build", "variants.tsv")
            with open(tsv, "w", encoding="utf-8") as f:
                subprocess.run([sys.executable, os.path.join(VERIF, "tools", "spell.py"), str(seed), "variants"], stdout=f, text=True, timeout=300)
            p = subprocess.run([wbin("standin"), "phrases", tsv], capture_output=True, text=True, timeout=900)
            try:
                w = json.loads(p.stdout.strip().split("\n")[-1])
            except Exception:
                w = {}
            ran.append({"search": "variants", "bound": STANDIN_BOUND["variants"], "cases": w.get("cases"), "found": w.get("kind") == "call"})
            if w.get("kind") == "call":
                return w, ran
    if pid in ("C01", "C04", "C08", "C16", "C14"):
        for code in ["en", "fr", "es", "pt", "it", "de", "nl"]:
            w = find_witness(pid, {"unit": "lang_" + code, "fn": "", "kind": "standin"})
            if w:
                ran.append({"search": "rows/" + code, "bound": STANDIN_BOUND["zeros" if pid == "C16" else "rows"], "found": True})
                return w, ran
        ran.append({"search": "rows", "bound": STANDIN_BOUND["zeros" if pid == "C16" else "rows"], "found": False})
    if pid in ("C10", "C11", "C17", "C06", "C13", "C03"):
        w = find_witness(pid, {"unit": "scan", "fn": "get_interpreter_for" if pid == "C13" else "", "kind": "body"})
        ran.append({"search": "meta/" + pid, "bound": STANDIN_BOUND["meta"], "found": bool(w)})
        if w:
            return w, ran
    if pid == "C12":
        for fn in ["put", "put_digit_at", "fput", "shift", "push", "is_range_free", "is_free", "to_string", ""]:  # "": any operation or query (peek, is_position_free, len, is_empty, is_null)
            w = find_witness(pid, {"unit": "ds", "fn": "DigitString::" + fn})
            if w:
                ran.append({"search": "ds_ops/" + fn, "bound": "operation sequences of length <= 3 against an executable model", "found": True})
                return w, ran
        ran.append({"search": "ds_ops", "bound": "operation sequences of length <= 3 against an executable model", "found": False})
    return None, ran


def replay(path):
    rep = json.load(open(path))
    print(f"property {rep['property']}: failed obligation {rep['obligation']}")
    print(f"  clause: {rep['clause']}")
    print(f"  function: {rep['function']} ({rep.get('source')})")
    for v in rep.get("verifier_output", []):
        print(v)
    w = rep.get("witness")
    if not w:
        print("no concrete failing input was found for this obligation (no-failing-input-found)")
        return 1
    print("witness:", json.dumps(w))
    ok, err = build_witness()
    if not ok:
        print("could not build the replay program:", err)
        return 2
    if w.get("kind") == "ds_ops":
        p = subprocess.run([wbin("ds_witness"), "--replay", json.dumps(w["ops"]), w.get("fn", "")], capture_output=True, text=True)
        print(p.stdout.strip())
        return 1 if p.returncode == 1 else 0
    if w.get("kind") == "meta":
        p = subprocess.run([wbin("meta_witness"), "--replay", json.dumps(w)], capture_output=True, text=True)
        print(p.stdout.strip())
        return 1 if p.returncode == 1 else 0
    if w.get("kind") == "standin":
        p = subprocess.run([wbin("standin"), "--replay", json.dumps(w)], capture_output=True, text=True)
        print(p.stdout.strip())
        return 1 if p.returncode == 1 else 0
    if w.get("kind") == "call":
        p = subprocess.run([wbin("t2n_call"), json.dumps(w)], capture_output=True, text=True)
        print(p.stdout.strip())
        if w.get("expect", {}).get("no_stderr"):
            if p.stderr.strip():
                print("REPRODUCED: the call wrote to stderr:", p.stderr.strip()[:300])
                return 1
            print("not reproduced: nothing was written to stderr")
            return 0
        return 1 if p.returncode == 1 else 0
    return 1
