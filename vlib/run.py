"""Run Verus on generated units, map diagnostics to obligations (function, clause, property tags)."""
import hashlib, json, os, re, subprocess, sys, time

from . import gen

VERIF = gen.VERIF
CACHE = os.path.join(VERIF, "build", "cache")
VERUS_FLAGS = ["--triggers-mode", "silent", "--multiple-errors", "40", "--output-json", "--time",
               "--error-format=json"]

DEFINITE = ("postcondition not satisfied", "precondition not satisfied", "assertion failed",
            "possible arithmetic underflow/overflow", "invariant not satisfied",
            "possible division by zero", "decreases not satisfied", "loop invariant",
            "recommendation not met")
UNDECIDED_MARKS = ("Resource limit", "rlimit", "timeout", "solver", "canceled")

IMPURE_HINTS = ("std::io", "_eprint", "_print", "std::fs", "std::env", "std::time", "std::thread",
                "std::sync", "std::cell", "std::process", "std::net", "rand::", "static mut",
                "thread_local")


def split_clauses(spec):
    """split requires/ensures text into clauses: returns list of (section, text, line_offset)"""
    # strip comments but keep tags
    out = []
    # tokenise by scanning characters with depth tracking
    section = None
    depth = 0
    cur = ""
    cur_line = 0
    line = 0
    i = 0
    n = len(spec)
    in_bar = False
    tags_pending = ""

    def push():
        nonlocal cur, cur_line
        t = cur.strip()
        if t and section:
            out.append({"section": section, "text": t, "line": cur_line})
        cur = ""

    while i < n:
        c = spec[i]
        if spec.startswith("//", i):
            j = spec.find("\n", i)
            if j < 0:
                j = n
            comment = spec[i:j]
            # attach tags to the clause just completed (trailing comment on the same line)
            tags = re.findall(r"#(C\d+)", comment)
            line_start = spec.rfind("\n", 0, i) + 1
            standalone = spec[line_start:i].strip() == ""
            if tags:
                if cur.strip() or standalone:
                    # comment in the middle/at end of a clause line before the comma?  attach to current
                    out.append({"_tags_for_next": tags})
                elif out:
                    for k in range(len(out) - 1, -1, -1):
                        if "text" in out[k]:
                            out[k].setdefault("tags", []).extend(tags)
                            break
            i = j
            continue
        m = re.match(r"(requires|ensures|decreases|recommends|invariant)\b", spec[i:])
        if m and depth == 0 and not in_bar and (i == 0 or not (spec[i - 1].isalnum() or spec[i - 1] == "_")):
            push()
            section = m.group(1)
            i += len(section)
            cur_line = line
            continue
        if c == "\n":
            line += 1
        if c in "([{":
            depth += 1
        elif c in ")]}":
            depth -= 1
        elif c == "|":
            # quantifier / closure binder bars: `forall|x: int, y: int|`
            if in_bar:
                in_bar = False
            elif re.search(r"(forall|exists|choose)\s*$", cur) or re.search(r"(forall|exists|choose)\s*$", spec[:i]):
                in_bar = True
        if c == "," and depth == 0 and not in_bar:
            push()
            cur_line = line
            i += 1
            continue
        if not cur.strip() and not c.isspace():
            cur_line = line
        cur += c
        i += 1
    push()
    # resolve _tags_for_next markers: they belong to the clause that follows (the one being built when seen)
    res = []
    pend = []
    for o in out:
        if "_tags_for_next" in o:
            pend += o["_tags_for_next"]
        else:
            if pend:
                o.setdefault("tags", []).extend(pend)
                pend = []
            res.append(o)
    return res


def verus_run(path, extra=None, rlimit=None, seed=None, timeout=1800):
    src = open(path, "rb").read()
    flags = list(VERUS_FLAGS)
    if rlimit:
        flags += ["--rlimit", str(rlimit)]
    if seed:
        flags += ["--smt-option", f"smt.random_seed={seed}"]
    if extra:
        flags += extra
    key = hashlib.sha256(src + " ".join(flags).encode()).hexdigest()
    os.makedirs(CACHE, exist_ok=True)
    cf = os.path.join(CACHE, key + ".json")
    if os.path.exists(cf) and not os.environ.get("VERIF_NOCACHE"):
        r = json.load(open(cf))
        r["cached"] = True
        return r
    t0 = time.time()
    cmd = ["verus", path] + flags
    try:
        p = subprocess.run(cmd, capture_output=True, text=True, cwd=VERIF, timeout=timeout)
        out, err, rc = p.stdout, p.stderr, p.returncode
    except subprocess.TimeoutExpired as e:
        out, err, rc = "", "TIMEOUT", 124
    wall = time.time() - t0
    diags = []
    other = []
    for l in err.split("\n"):
        l = l.strip()
        if l.startswith("{") and '"$message_type"' in l:
            try:
                diags.append(json.loads(l))
            except Exception:
                other.append(l)
        elif l and not l.startswith("[rust_verify"):
            other.append(l)
    try:
        j = json.loads(out) if out.strip() else None
    except Exception:
        j = None
    r = {"cmd": " ".join(cmd), "rc": rc, "json": j, "diags": diags, "other": other[:50], "wall_s": wall, "cached": False}
    ok_to_cache = j is not None and (j.get("verification-results", {}).get("verified", 0) > 0)
    if ok_to_cache:
        with open(cf, "w") as f:
            json.dump(r, f)
    return r


class UnitResult:
    pass


def analyse_unit(name, canary=False, rlimit=None, seed=None):
    """generate + verify a unit. returns dict with status and obligations."""
    res = {"unit": name, "status": "ok", "reasons": [], "obligations": [], "fns": [], "log": [],
           "trusted": [], "wall_s": 0.0, "cmd": "", "cached": False, "warnings": []}
    try:
        meta = gen.gen_unit(name, canary=canary)
    except gen.SpecError as e:
        res["status"] = "undecided"
        res["reasons"].append("generator: " + str(e))
        return res
    res["log"] = meta["log"]
    res["warnings"] = meta["warnings"]
    res["path"] = meta["path"]
    if meta["errors"]:
        res["status"] = "undecided"
        res["reasons"] += ["extractor: " + e for e in meta["errors"]]
        return res
    text = open(meta["path"], encoding="utf-8").read()
    lines = text.split("\n")
    res["trusted"] = trusted_scan(text)
    # ---- function table: marker lines `// @fn KEY`
    fn_at = []  # (line_no(1-based), key)
    section = "overlay"
    cur_item = None
    for i, l in enumerate(lines):
        if l.startswith("// ======== "):
            section = "repo" if "extracted code" in l or "imported unit" in l else "overlay"
            if "spec prelude" in l:
                section = "overlay"
        mit = re.match(r"\s*// @item (.*) \(", l)
        if mit:
            cur_item = mit.group(1).strip()
        m = re.match(r"\s*// @fn (.*)$", l)
        mi = re.match(r"\s*// @item (macro \S+|\S+!) ", l)
        if m:
            fn_at.append((i + 1, m.group(1).strip(), "repo"))
        elif mi:
            fn_at.append((i + 1, mi.group(1).strip(), "repo"))
        else:
            m = re.match(r"\s*(pub\s+)?(broadcast\s+)?(proof\s+|exec\s+|spec\s+|open\s+spec\s+|closed\s+spec\s+)?fn\s+([A-Za-z_0-9]+)", l)
            if m and not (fn_at and fn_at[-1][0] >= i - 6 and fn_at[-1][2] == "repo" and fn_at[-1][1].split("::")[-1] in (m.group(4), m.group(4)[3:] if m.group(4).startswith("vx_") else m.group(4))):
                if section == "repo" and cur_item and cur_item.startswith("macro "):
                    fn_at.append((i + 1, f"{cur_item}::{m.group(4)}", "repo"))
                elif section == "overlay":
                    fn_at.append((i + 1, m.group(4), "overlay"))

    def fn_of_line(ln):
        best = None
        for (l, k, kind) in fn_at:
            if l <= ln:
                best = (k, kind)
            else:
                break
        return best or ("?", "overlay")

    own = {f["key"]: f for f in meta["fns"]}
    fn_props = meta["fn_props"]
    unit = meta["unit"]
    contracts = {}
    for s in unit["sources"]:
        contracts.update(s["contracts"])
        for o_ in s.get("outlines", []):
            contracts[f"{o_['method_of']}::{o_['name']}"] = {"spec": o_["spec"]}
    # ---- obligations
    obls = {}
    clause_lines = {}  # fnkey -> list of (abs_line, idx)
    for key, f in own.items():
        if f["external"] or f.get("decl"):
            continue
        props = fn_props.get(key, [])
        oid = f"{name}::{key}::body"
        obls[oid] = {"id": oid, "fn": key, "kind": "body", "props": sorted(set(props + ["C03"])),
                     "text": "body is panic-free: no overflow, index/slice in bounds, callee preconditions, unwrap on Some/Ok; loop invariants hold",
                     "src": f"{f['file']}:{f['line']}", "status": "discharged"}
        c = contracts.get(key)
        if c and c.get("spec", "").strip():
            cl = split_clauses(c["spec"])
            # find spec text start line in generated file (after the marker)
            mk = [l for (l, k, kind) in fn_at if k == key and kind == "repo"]
            start = None
            if mk:
                first = c["spec"].strip().split("\n")[0].strip()
                for ln in range(mk[0], min(len(lines), mk[0] + 400)):
                    if lines[ln - 1].strip() == first:
                        start = ln
                        break
            idx = 0
            # line offsets in split_clauses are relative to spec text; spec was inserted after strip of trailing ws,
            # but leading blank lines preserved -> compute offset of first non-empty line
            lead = 0
            for l in c["spec"].split("\n"):
                if l.strip():
                    break
                lead += 1
            for k, clause in enumerate([x for x in cl if x["section"] == "ensures"]):
                oid = f"{name}::{key}::ensures#{k}"
                tags = clause.get("tags") or props
                obls[oid] = {"id": oid, "fn": key, "kind": "ensures", "props": sorted(set(tags)),
                             "text": re.sub(r"\s+", " ", clause["text"])[:300], "src": f"{f['file']}:{f['line']}",
                             "status": "discharged"}
                if start is not None:
                    ln_abs = start + clause["line"] - lead
                    first_line = clause["text"].split("\n")[0].strip()
                    col = lines[ln_abs - 1].find(first_line[:40]) + 1 if 0 < ln_abs <= len(lines) else 0
                    clause_lines.setdefault(key, []).append((ln_abs, col, oid))
    # functions generated by a macro_rules body (e.g. delegate!): verified against the inherited trait contract
    for (ln, k, kind) in fn_at:
        if kind == "repo" and k.startswith("macro ") and "::" in k:
            oid = f"{name}::{k}::inherited-contract"
            tags = sorted(set(re.findall(r"#(C\d+)", "\n".join(lines[max(0, ln - 3):ln + 12]))))
            obls[oid] = {"id": oid, "fn": k, "kind": "ensures", "props": tags or ["C13"],
                         "text": "macro-generated method satisfies every clause of the trait method contract it implements",
                         "src": "", "status": "discharged"}
    # overlay functions (lemmas, drivers): one obligation each, tagged by `// props: Cxx` comment above or unit default
    overlay_props = {}
    for i, l in enumerate(lines):
        m = re.match(r"\s*// props: (.*)$", l)
        if m:
            # applies to next fn
            for (ln, k, kind) in fn_at:
                if ln > i + 1 and kind == "overlay":
                    overlay_props[k] = [p.strip() for p in m.group(1).split(",") if p.strip()]
                    break
    res["overlay_props"] = overlay_props
    # ---- run verus
    if canary:
        # vacuity guard: only the extracted functions (root module) matter, and "not proved within a small budget" is the expected outcome
        vr = verus_run(meta["path"], extra=["--verify-root"], rlimit=3, seed=seed)
    else:
        vr = verus_run(meta["path"], rlimit=rlimit or unit.get("rlimit"), seed=seed)
    res["wall_s"] = vr["wall_s"]
    res["cmd"] = vr["cmd"]
    res["cached"] = vr["cached"]
    j = vr["json"]
    if j is None:
        res["status"] = "undecided"
        res["reasons"].append("verus produced no result: " + " | ".join(vr["other"][:5]))
        return res
    vres = j.get("verification-results", {})
    res["verus_verified"] = vres.get("verified", 0)
    res["verus_errors"] = vres.get("errors", 0)
    # function breakdown
    fb = {}
    for m in j.get("times-ms", {}).get("smt", {}).get("smt-run-module-times", []):
        for f in m.get("function-breakdown", []):
            fb[f["function"]] = f
    res["breakdown"] = fb
    # compile-level errors (no verification happened)
    hard = []
    failures = []
    for d in vr["diags"]:
        if d.get("level") != "error":
            continue
        msg = d.get("message", "")
        if msg.startswith("aborting due to"):
            continue
        prim = [s for s in d.get("spans", []) if s.get("is_primary")]
        ln = prim[0]["line_start"] if prim else 0
        col0 = prim[0].get("column_start", 0) if prim else 0
        allspans = [(s["line_start"], s.get("label")) for s in d.get("spans", [])]
        k = None
        if any(msg.startswith(x) or x in msg for x in DEFINITE):
            k = "definite"
        elif any(x in msg for x in UNDECIDED_MARKS):
            k = "rlimit"
        else:
            k = "hard"
        fnk, kind = fn_of_line(ln)
        if msg.startswith("postcondition not satisfied"):
            # the function is where the body/exit span lies; the primary span is the clause (possibly a trait's clause)
            for s_ in d.get("spans", []):
                lab = s_.get("label") or ""
                if lab.startswith("at the end of the function body") or lab.startswith("at this exit"):
                    fnk, kind = fn_of_line(s_["line_start"])
                    break
        rec = {"msg": msg, "line": ln, "col": col0, "fn": fnk, "fn_kind": kind, "class": k,
               "rendered": d.get("rendered", "")[:3000], "spans": allspans}
        if k == "hard":
            hard.append(rec)
        else:
            failures.append(rec)
    res["failures"] = failures
    res["hard"] = hard
    if hard and vres.get("verified", 0) == 0 and not failures:
        # type error / unsupported construct: nothing was verified
        res["status"] = "undecided"
        for h in hard[:6]:
            res["reasons"].append(f"verus rejected the unit at {os.path.basename(meta['path'])}:{h['line']} ({h['fn']}): {h['msg'][:300]}")
        res["impure"] = [h for h in hard if any(x in h["msg"] or x in h["rendered"] for x in IMPURE_HINTS)]
        res["obligations"] = list(obls.values())
        for o in res["obligations"]:
            o["status"] = "undecided"
        return res
    # map failures to obligations
    for f in failures:
        key = f["fn"]
        if f["fn_kind"] == "overlay":
            oid = f"{name}::overlay::{key}"
            obls.setdefault(oid, {"id": oid, "fn": key, "kind": "overlay", "props": overlay_props.get(key, []),
                                  "text": "overlay lemma/driver", "src": "specs/" + name + ".vspec", "status": "discharged"})
            obls[oid]["status"] = "failed" if f["class"] == "definite" else "undecided"
            obls[oid].setdefault("diag", []).append(f)
            continue
        if f["class"] == "rlimit":
            # whole function undecided unless it also has definite failures
            for oid, o in obls.items():
                if o["fn"] == key and o["status"] == "discharged":
                    o["status"] = "undecided"
                    o.setdefault("diag", []).append(f)
            continue
        target = None
        if f["msg"].startswith("postcondition not satisfied"):
            cls = sorted(clause_lines.get(key, []))
            for (ln, col, oid) in cls:
                if ln < f["line"] or (ln == f["line"] and col <= max(f.get("col", 0), 1)):
                    target = oid
        if target is None and f["msg"].startswith("postcondition not satisfied") and 0 < f["line"] <= len(lines):
            # clause of an inherited (trait) contract: tags on the clause line decide the property
            tags = re.findall(r"#(C\d+)", lines[f["line"] - 1])
            clause = re.sub(r"\s+", " ", lines[f["line"] - 1].strip())[:200]
            target = f"{name}::{key}::inherited[{clause[:60]}]"
            if target not in obls:
                obls[target] = {"id": target, "fn": key, "kind": "ensures", "props": sorted(set(tags or fn_props.get(key, []) + ["C03"])),
                                "text": "trait contract clause: " + clause, "src": "", "status": "discharged"}
        if target is None and f["msg"].startswith("precondition not satisfied"):
            # tags on the failed `requires` line of the callee decide which property the call site breaks
            tags = []
            for (ln, label) in f["spans"]:
                if label and "failed precondition" in label and 0 < ln <= len(lines):
                    tags += re.findall(r"#(C\d+)", lines[ln - 1])
                    f["requires_line"] = lines[ln - 1].strip()
            if tags:
                target = f"{name}::{key}::requires[{','.join(sorted(set(tags)))}]"
                if target not in obls:
                    obls[target] = {"id": target, "fn": key, "kind": "body", "props": sorted(set(tags)),
                                    "text": "call site must establish: " + f.get("requires_line", ""), "src": obls.get(f"{name}::{key}::body", {}).get("src", ""),
                                    "status": "discharged"}
        if target is None:
            target = f"{name}::{key}::body"
        if target not in obls:
            obls[target] = {"id": target, "fn": key, "kind": "body", "props": ["C03"], "text": "", "src": "", "status": "discharged"}
        obls[target]["status"] = "failed"
        obls[target].setdefault("diag", []).append(f)
    # functions verus reports as failed without any mapped diagnostic -> undecided
    for fname, b in fb.items():
        if not b.get("success", True):
            short = fname.split("::", 1)[1] if "::" in fname else fname
            # find obligations of that function
            mine = [o for o in obls.values() if short.endswith(o["fn"].split(" for ")[-1].replace(" ", "")) or o["fn"].endswith(short)]
            if mine and not any(o["status"] != "discharged" for o in mine):
                for o in mine:
                    o["status"] = "undecided"
    # overlay fns verified: add obligations for those with props
    for (ln, k, kind) in fn_at:
        if kind == "overlay" and k in overlay_props:
            oid = f"{name}::overlay::{k}"
            if oid not in obls:
                obls[oid] = {"id": oid, "fn": k, "kind": "overlay", "props": overlay_props[k],
                             "text": "overlay lemma/driver `%s` (postcondition is a sentence of the property)" % k,
                             "src": "specs/" + name + ".vspec", "status": "discharged"}
    # a closure that no rule rewrites or hoists has no specification inside Verus: whatever it returns is unconstrained, so a postcondition
    # that depends on it cannot be proved whether or not the code is right. A failure in such a function is "unsupported construct", not a verdict.
    closure_fns = set()
    for w in meta.get("warnings", []):
        mw = re.match(r"closure-carrying chain #\d+ in (.+) at line \d+ has no hoist rule", w)
        if mw:
            closure_fns.add(mw.group(1).strip())
    for o in obls.values():
        if o["status"] == "failed" and o["fn"] in closure_fns and o.get("kind") in ("ensures", "body"):
            o["status"] = "undecided"
            o.setdefault("diag", []).append({"msg": f"{o['fn']} contains a closure without specification (no rewrite or hoist rule applies): unsupported construct, not decided"})
    fn_base = meta.get("fn_base", {})
    for o in obls.values():
        extra_p = fn_base.get(o["fn"], [])
        if extra_p:
            o["props"] = sorted(set(o["props"]) | set(extra_p))
    res["obligations"] = list(obls.values())
    res["fns"] = list(own.values())
    return res


def trusted_scan(text):
    """mechanical scan of the generated file for everything that is assumed rather than proved"""
    out = []
    lines = text.split("\n")
    for i, l in enumerate(lines):
        s = l.strip()
        if s.startswith("//"):
            continue
        if "assume_specification" in s:
            m = re.search(r"\[([^\]]+(\]::[a-z_]+)?)", s)
            out.append("assume_specification " + re.sub(r"\s+", " ", s)[:140])
        elif "external_body" in s:
            # name of next fn/struct
            for j in range(i + 1, min(i + 8, len(lines))):
                m = re.search(r"\b(fn|struct)\s+([A-Za-z_0-9]+)", lines[j])
                if m:
                    out.append(f"external_body {m.group(1)} {m.group(2)}")
                    break
        elif re.search(r"\badmit\s*\(", s) or re.search(r"\bassume\s*\(", s):
            out.append("ASSUME/ADMIT " + s[:120])
        elif "uninterp" in s and "fn" in s:
            out.append("uninterp " + s[:120])
    return out
