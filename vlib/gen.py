"""Unit generator: specs/<unit>.vspec + /repo sources --(vx)--> build/<unit>.rs"""
import json, os, re, subprocess, sys

VERIF = os.path.dirname(os.path.dirname(os.path.abspath(__file__)))
REPO = os.environ.get("VERIF_REPO", "/repo")
VX = os.path.join(VERIF, "vx", "target", "release", "vx")
BUILD = os.path.join(VERIF, "build")


class SpecError(Exception):
    pass


def _kv(tokens):
    d, flags = {}, []
    for t in tokens:
        if "=" in t:
            k, v = t.split("=", 1)
            d[k] = v
        else:
            flags.append(t)
    return d, flags


def parse_vspec(path):
    """Parse a .vspec overlay file into a unit description."""
    unit = {"name": None, "doc": "", "sources": [], "prelude": "", "post": "", "uses": [],
            "fn_props": {}, "path": path, "canary_skip": [], "std_opaque": []}
    cur_src = None
    mode = None  # ('prelude'|'post'|'fn'|'entry'|'loop'|'attrs'|'hoist'|'chain'|'item_stub'|'macro_stub', obj, key)
    buf = []

    def flush():
        nonlocal mode, buf
        if mode is None:
            buf = []
            return
        text = "\n".join(buf)
        kind = mode[0]
        if kind == "prelude":
            unit["prelude"] += text + "\n"
        elif kind == "post":
            unit["post"] += text + "\n"
        elif kind == "fn":
            mode[1]["spec"] = text
        elif kind == "entry":
            mode[1]["entry"] = text
        elif kind == "attrs":
            mode[1]["attrs"] = text
        elif kind == "exit":
            mode[1]["exit"] = text
        elif kind == "loop":
            mode[1]["loops"][mode[2]] = text
        elif kind == "outl":
            lines = [l for l in buf if l.strip()]
            mode[1]["sig"] = lines[0].strip() if lines else ""
            mode[1]["spec"] = "\n".join(lines[1:])
        elif kind == "exprh":
            lines = [l for l in buf if l.strip()]
            mode[1]["text"] = lines[0].strip() if lines else ""
            mode[1]["sig"] = lines[1].strip() if len(lines) > 1 else ""
            mode[1]["spec"] = "\n".join(lines[2:])
        elif kind in ("hoist", "chain"):
            lines = [l for l in buf if l.strip()]
            # `alt: <text>` starts an alternative: another verbatim text of the same chain, followed by the spec assumed for that text
            alts = []
            main = []
            for l in lines:
                if l.strip().startswith("alt:") and kind == "hoist":
                    alts.append({"pin": l.strip()[4:].strip(), "spec": ""})
                elif alts:
                    alts[-1]["spec"] += l + "\n"
                else:
                    main.append(l)
            lines = main
            pins = [l for l in lines if l.strip().startswith("pin:")]
            lines = [l for l in lines if not l.strip().startswith("pin:")]
            if pins and kind == "hoist":
                mode[1]["pin"] = pins[0].strip()[4:].strip()
            if kind == "hoist":
                mode[1]["alts"] = alts
            mode[1]["sig"] = lines[0].strip() if lines else ""
            mode[1]["spec"] = "\n".join(lines[1:])
        elif kind == "item_stub":
            mode[1]["item_stubs"][mode[2]] = text
        elif kind == "macro_stub":
            mode[1]["macro_stubs"][mode[2]] = text.strip()
        elif kind == "item_attr":
            mode[1]["item_attrs"][mode[2]] = text.strip()
        elif kind == "inject":
            mode[1]["item_inject"][mode[2]] = mode[1]["item_inject"].get(mode[2], "") + text
        mode = None
        buf = []

    cur_contract = None
    raw_lines = []
    for raw in open(path, encoding="utf-8").read().split("\n"):
        if raw.startswith("//@ template "):
            parts = raw[len("//@ template "):].split()
            tpl = open(os.path.join(VERIF, "specs", "templates", parts[0]), encoding="utf-8").read()
            for kv in parts[1:]:
                k, v = kv.split("=", 1)
                tpl = tpl.replace("{{" + k + "}}", v.replace("~", " "))
                tpl = re.sub(r"\{\{" + re.escape(k) + r"\|[^}]*\}\}", lambda m_: v.replace("~", " "), tpl)
            # `{{name|default}}`: parameters with a default value
            tpl = re.sub(r"\{\{\w+\|([^}]*)\}\}", lambda m_: m_.group(1), tpl)
            raw_lines += tpl.split("\n")
        else:
            raw_lines.append(raw)
    for raw in raw_lines:
        if raw.startswith("//@"):
            flush()
            parts = raw[3:].strip().split()
            if not parts:
                continue
            d = parts[0]
            args = parts[1:]
            rest = raw[3:].strip()[len(d):].strip()
            if d == "unit":
                unit["name"] = args[0]
            elif d == "doc":
                unit["doc"] = rest
            elif d == "use":
                kv, flags = _kv(args[1:])
                unit["uses"].append({"unit": args[0], "flags": flags + [f"{k}={v}" for k, v in kv.items()]})
            elif d == "source":
                cur_src = {"file": os.path.join(REPO, args[0]), "rel": args[0], "keep": [], "drop": [],
                           "external": [], "contracts": {}, "vec_places": [], "hoists": [],
                           "strip_derives": [], "for_rewrite": [], "chain_hoists": [],
                           "item_stubs": {}, "macro_stubs": {}, "item_attrs": {}, "ident_renames": {}, "item_inject": {}, "trait_sized": [], "expr_hoists": [], "inherent_copy": [], "outlines": [], "break_to_return": [], "str_places": [],
                           "external_all": False, "verify": [], "strlit_facts": False, "parse_f64": False, "phf_stub": {}, "bitflags_stub": False, "known_lits": [], "strlit_named": False}
                unit["sources"].append(cur_src)
            elif d == "keep":
                cur_src["keep"].append(rest)
            elif d == "drop":
                cur_src["drop"].append(rest)
            elif d == "vec_place":
                cur_src["vec_places"].append(rest.replace(" ", ""))
            elif d == "strip_derive":
                cur_src["strip_derives"].append(rest)
            elif d == "for_rewrite":
                cur_src["for_rewrite"].append(rest)
            elif d == "break_to_return":
                cur_src["break_to_return"].append(rest)
            elif d == "str_place":
                cur_src["str_places"].append(rest.replace(" ", ""))
            elif d == "inherent_copy":
                cur_src["inherent_copy"].append(rest)
            elif d == "trait_sized":
                cur_src["trait_sized"].append(rest)
            elif d == "phf_stub":
                cur_src["phf_stub"][" ".join(args[:-1])] = args[-1]
            elif d == "bitflags_stub":
                cur_src["bitflags_stub"] = True
            elif d == "strlit_named":
                cur_src["strlit_named"] = True
                cur_src["strlit_facts"] = True
            elif d == "known_lits":
                cur_src["known_lits"] += json.loads(open(os.path.join(VERIF, "specs", "templates", rest)).read())
            elif d == "parse_f64":
                cur_src["parse_f64"] = True
            elif d == "keep_helpers":
                cur_src["keep_helpers"] = True
            elif d == "strlit_facts":
                cur_src["strlit_facts"] = True
            elif d == "external_all":
                cur_src["external_all"] = True
            elif d == "verify":
                cur_src["verify"].append(rest)
            elif d == "rename":
                cur_src["ident_renames"][args[0]] = args[1]
            elif d == "external":
                cur_src["external"].append(rest)
            elif d == "fn":
                # key may contain spaces ("Deref for DigitString::deref"): options are trailing k=v / flags
                toks = rest.split()
                opts = []
                while toks and (("=" in toks[-1] and toks[-1].split("=")[0] in ("ret", "props", "base")) or toks[-1] in ("external", "optional")):
                    opts.append(toks.pop())
                key = " ".join(toks)
                kv, flags = _kv(opts)
                cur_contract = {"ret": kv.get("ret"), "spec": "", "entry": "", "exit": "", "pin_body": "", "loops": {}, "attrs": "",
                                "external": "external" in flags, "optional": "optional" in flags}
                cur_src["contracts"][key] = cur_contract
                unit["fn_props"][key] = [p for p in kv.get("props", "").split(",") if p]
                # `base=`: properties that depend on EVERY clause of this function (added to clause-level tags, not replaced by them)
                unit.setdefault("fn_base", {})[key] = [p for p in kv.get("base", "").split(",") if p]
                mode = ("fn", cur_contract)
            elif d == "entry":
                mode = ("entry", cur_contract)
            elif d == "attrs":
                mode = ("attrs", cur_contract)
            elif d == "exit":
                # `//@ exit all`: the hint is also placed before every explicit `return` (it must then hold at each of them)
                cur_contract["exit_all"] = rest.strip() == "all"
                mode = ("exit", cur_contract)
            elif d == "pin_body":
                cur_contract["pin_body"] = rest
            elif d == "loop":
                # `//@ loop N` invariants; `//@ loop N begin` / `//@ loop N end`: proof hints at the start / end of the loop body
                mode = ("loop", cur_contract, args[0] + ("." + args[1] if len(args) > 1 and args[1] in ("begin", "end", "after") else ""))
            elif d == "after":
                # `//@ after N`: proof text after the N-th top-level statement of the function body
                mode = ("loop", cur_contract, "s" + args[0])
            elif d == "hoist":
                kv, flags = _kv(args)
                h = {"in_fn": kv["in"].replace("~", " "), "nth": int(kv["nth"]), "split": kv["split"],
                     "name": kv["name"], "generics": kv.get("generics", "").replace("~", " "),
                     "by_ref": "by_ref" in flags, "sig": "", "spec": "", "pin": ""}
                cur_src["hoists"].append(h)
                mode = ("hoist", h)
            elif d == "chain":
                kv, flags = _kv(args)
                h = {"in_fn": kv["in"].replace("~", " "), "suffix": kv["suffix"], "name": kv["name"],
                     "generics": kv.get("generics", "").replace("~", " "), "by_ref": "by_ref" in flags,
                     "args": kv.get("args", "").replace("~", " "), "sig": "", "spec": ""}
                cur_src["chain_hoists"].append(h)
                mode = ("chain", h)
            elif d == "expr":
                kv, flags = _kv(args)
                h = {"in_fn": kv["in"].replace("~", " "), "text": "", "name": kv["name"],
                     "generics": kv.get("generics", "").replace("~", " "),
                     "args": kv.get("args", "").replace("~", " "), "sig": "", "spec": "",
                     "method_of": kv.get("method_of", "").replace("~", " ")}
                cur_src["expr_hoists"].append(h)
                mode = ("exprh", h)
            elif d == "outline":
                kv, flags = _kv(args)
                h = {"in_fn": kv["in"].replace("~", " "), "name": kv["name"], "method_of": kv["method_of"],
                     "args": kv.get("args", "").replace("~", " "), "sig": "", "spec": "", "entry": "", "attrs": "",
                     "mut_vars": [v for v in kv.get("mut_vars", "").split(",") if v],
                     "min_arms": int(kv.get("min_arms", "8")), "props": [p_ for p_ in kv.get("props", "").split(",") if p_]}
                cur_src["outlines"].append(h)
                unit["fn_props"][f"{h['method_of']}::{h['name']}"] = h["props"]
                cur_contract = h
                cur_contract.setdefault("loops", {})
                mode = ("outl", h)
            elif d == "item_stub":
                mode = ("item_stub", cur_src, rest)
            elif d == "macro_stub":
                mode = ("macro_stub", cur_src, rest)
            elif d == "item_attr":
                mode = ("item_attr", cur_src, rest)
            elif d == "inject":
                mode = ("inject", cur_src, rest)
            elif d == "prelude":
                mode = ("prelude",)
            elif d == "post":
                mode = ("post",)
            elif d == "rlimit":
                unit["rlimit"] = args[0]
            elif d == "std_opaque":
                unit["std_opaque"] += args
            elif d == "canary_skip":
                unit["canary_skip"].append(rest)
            elif d == "end":
                pass
            else:
                raise SpecError(f"{path}: unknown directive {d}")
        else:
            buf.append(raw)
    flush()
    if not unit["name"]:
        raise SpecError(f"{path}: no unit name")
    return unit


def run_vx(plan):
    os.makedirs(BUILD, exist_ok=True)
    import uuid
    pf = os.path.join(BUILD, "plan_%s.json" % uuid.uuid4().hex)
    with open(pf, "w") as f:
        json.dump(plan, f)
    try:
        p = subprocess.run([VX, pf], capture_output=True, text=True)
    finally:
        os.unlink(pf)
    if p.returncode != 0:
        raise SpecError("vx failed: " + p.stderr[-2000:])
    return json.loads(p.stdout)


HEADER = """// GENERATED by /verif/vlib/gen.py from {srcs} + specs/{unit}.vspec -- do not edit
#![allow(unused_imports, dead_code, unused_variables, unused_mut, unused_parens, unused_braces, non_snake_case, unused_assignments, unreachable_code, unreachable_patterns)]
#![feature(allocator_api)]
use vstd::prelude::*;
use std::ops::Deref;
use std::collections::VecDeque;
use std::iter::Enumerate;
verus! {{
global size_of usize == 8;
"""

FOOTER = """
} // verus!
fn main() {}
"""


def load_unit(name):
    return parse_vspec(os.path.join(VERIF, "specs", name + ".vspec"))


def gen_sources(unit, external_all=False, canary=None):
    """run vx on each source of the unit; returns (text, helpers, meta)"""
    text, helpers = "", ""
    meta = {"log": [], "fns": [], "warnings": [], "errors": [], "items": []}
    for src in unit["sources"]:
        plan = {k: v for k, v in src.items() if k != "rel"}
        if external_all:
            plan = dict(plan)
            plan["external_all"] = True
            plan["verify"] = []
        if canary is not None:
            plan = json.loads(json.dumps(plan))
            items = sorted(plan["contracts"].items()) + [(f"{o['method_of']}::{o['name']}", o) for o in plan.get("outlines", [])]
            for key, c in items:
                canary["n"] = canary.get("n", 0) + 1
                cf = "vx_canary(%d)" % canary["n"]
                if c.get("external") or key in plan["external"] or key in unit.get("canary_skip", []):
                    continue
                sp = c.get("spec", "")
                # append `false` to the ensures clause (or create one)
                stripped = re.sub(r"//[^\n]*", "", sp)
                if re.search(r"\bensures\b", stripped):
                    # insert right after the `ensures` keyword
                    c["spec"] = re.sub(r"\bensures\b", "ensures " + cf + ",", sp, count=1)
                else:
                    # keep `decreases` last
                    m = re.search(r"\bdecreases\b", sp)
                    if m:
                        c["spec"] = sp[:m.start()] + "\n ensures " + cf + ",\n" + sp[m.start():]
                    else:
                        c["spec"] = sp + "\n ensures " + cf + ","
        out = run_vx(plan)
        text += f"// ===== from {src['rel']} =====\n" + out["text"]
        helpers += out["helpers"]
        for k in ("log", "warnings", "errors", "items"):
            meta[k] += out[k]
        meta.setdefault("matches", [])
        meta["matches"] += out.get("matches", [])
        for f in out["fns"]:
            f["file"] = src["rel"]
            f["unit"] = unit["name"]
            meta["fns"].append(f)
    return text, helpers, meta


def _wname(w):
    """name of the word constant of a literal (same function as tools/gen_lang.py::wname)"""
    o = ""
    for ch in w:
        o += ch if (ch.isascii() and ch.isalnum()) else "_u%04x" % ord(ch)
    return o or "_empty"


def reorder_model(prelude, c, matches, log):
    """The arm-level model `<c>_status` is an if-chain in the order of the frozen table. Arms over DISJOINT sets of literal words
    commute (at most one of them can match a given word, whatever their guards), so when the code's `match` lists the same arms
    in another order the chain is emitted in the code's order: the function is the same, and the table proof does not have to
    know that the words differ (which the solver can only be told at a prohibitive cost for fr/es/pt/it).
    Nothing is reordered when an arm was added, removed or changed, or when two arms that share a word changed places: then the
    frozen order stays and the proof decides."""
    m = re.search(r"(?m)^#\[verifier::opaque\] pub open spec fn %s_status\([^\n]*\{\n" % c, prelude)
    if not m:
        return prelude
    start = m.end()
    lines = []
    pos = start
    while True:
        e = prelude.index("\n", pos)
        ln = prelude[pos:e]
        if re.match(r"\s*(else )?if \(", ln):
            lines.append(ln)
            pos = e + 1
        else:
            break
    model_sets = [frozenset(re.findall(r"l == (w_\w+)\(\)", ln)) for ln in lines]
    if not lines or any(len(x) == 0 for x in model_sets):
        return prelude
    # the code's table: the literal match with the most arms
    cand = [mm for mm in matches if len(mm["arms"]) >= max(8, len(lines) // 2)]
    if not cand:
        return prelude
    mm = max(cand, key=lambda x: len(x["arms"]))
    arms = mm["arms"]
    if any(a is None for a in arms[:-1]):
        return prelude
    if arms and arms[-1] is None:
        arms = arms[:-1]
    code_sets = [frozenset("w_" + _wname(w) for w in a) for a in arms]
    if len(code_sets) != len(model_sets) or sorted(map(sorted, code_sets)) != sorted(map(sorted, model_sets)) or len(set(code_sets)) != len(code_sets):
        return prelude
    if code_sets == model_sets:
        return prelude
    pos_in_model = {st: i for i, st in enumerate(model_sets)}
    perm = [pos_in_model[st] for st in code_sets]
    # arms whose relative order changed must not share a word
    for a in range(len(perm)):
        for b in range(a + 1, len(perm)):
            if perm[a] > perm[b] and (model_sets[perm[a]] & model_sets[perm[b]]):
                return prelude
    new = []
    for k, i in enumerate(perm):
        body = re.sub(r"^(\s*)(else )?if \(", lambda x: x.group(1) + ("if (" if k == 0 else "else if ("), lines[i], count=1)
        new.append(body)
    log.append("model: arms of %s_status emitted in the order of the code's match at line %d (%d arms; arms over disjoint words commute)" % (c, mm["line"], len(perm)))
    return prelude[:start] + "\n".join(new) + "\n" + prelude[pos:]


def check_source_pins(pinfile):
    """Functions that no unit extracts but whose ASSUMED contract was written for a given text (specs/pins/*.json): compare the text of
    /repo's working tree with the pinned one, comments and whitespace ignored. Returns a list of lost-anchor messages."""
    out = []
    try:
        pj = json.load(open(os.path.join(VERIF, "specs", "pins", pinfile), encoding="utf-8"))
    except Exception as e:
        return ["pin file %s unreadable: %r" % (pinfile, e)]
    cache = {}
    for pin in pj["pins"]:
        path = os.path.join(REPO, pin["file"])
        try:
            text = cache.setdefault(path, open(path, encoding="utf-8").read())
            i = text.index(pin["impl"])
            j = text.index(pin["fn"], i)
            k = text.index("{", j)
            depth, q = 0, k
            while True:
                c = text[q]
                if c == "{":
                    depth += 1
                elif c == "}":
                    depth -= 1
                    if depth == 0:
                        break
                q += 1
            cur = " ".join(re.sub(r"//[^\n]*", "", text[j:q + 1]).split())
        except (ValueError, IndexError, OSError):
            out.append("lost anchor: `%s` / `%s` not found in %s (its assumed contract cannot be applied)" % (pin["impl"], pin["fn"], pin["file"]))
            continue
        if cur != pin["text"]:
            out.append("lost anchor: %s `%s` `%s` is no longer the text its assumed contract (word splitter stub) was written for" % (pin["file"], pin["impl"], pin["fn"]))
    return out


def gen_unit(name, canary=False, outname=None):
    unit = load_unit(name)
    std = open(os.path.join(VERIF, "specs", "std.rs"), encoding="utf-8").read()
    for fn in unit.get("std_opaque", []):
        std, n = re.subn(r"(?m)^(pub open spec fn %s\()" % re.escape(fn), r"#[verifier::opaque] \1", std)
        if n != 1:
            raise SpecError(f"unit {name}: cannot make std.rs function `{fn}` opaque")
    parts = [HEADER.format(srcs=", ".join(s["rel"] for s in unit["sources"]), unit=name), std]
    if canary:
        parts.append("pub uninterp spec fn vx_canary(k: int) -> bool;\n")
    meta_all = {"log": [], "fns": [], "warnings": [], "errors": [], "items": [], "imported_fns": []}
    fn_props = dict(unit["fn_props"])
    # imported units: contracts only (bodies external)
    for u in unit["uses"]:
        dep = load_unit(u["unit"])
        for uu in dep["uses"]:
            if uu["unit"] not in [x["unit"] for x in unit["uses"]]:
                raise SpecError(f"unit {name} uses {u['unit']} which uses {uu['unit']}: list it explicitly before")
        t, h, m = gen_sources(dep, external_all=True)
        parts.append(f"// ======== imported unit `{u['unit']}` (contracts only; bodies verified in their own unit) ========\n")
        prel = dep["prelude"]
        for fl in u["flags"]:
            if fl.startswith("opaque="):
                for fn in fl[len("opaque="):].split(","):
                    prel, n = re.subn(r"(?m)^(pub open spec fn %s\()" % re.escape(fn), r"#[verifier::opaque] \1", prel)
                    if n != 1:
                        raise SpecError(f"unit {name}: cannot make `{fn}` of unit {u['unit']} opaque")
            if fl.startswith("drop_requires="):
                # the importing unit proves its obligations WITHOUT this precondition of the imported contracts (they must then hold for
                # every argument): whole `requires P(..),` lines and continuation lines `P(..),` that start with the given predicate go
                pred = re.escape(fl[len("drop_requires="):])
                t, n1 = re.subn(r"(?m)^[ \t]*requires[ \t]+%s\([^\n]*\),[ \t]*(//[^\n]*)?\n" % pred, "", t)
                t, n2 = re.subn(r"(?m)^[ \t]+%s\([^\n]*\),[ \t]*(//[^\n]*)?\n" % pred, "", t)
                if n1 + n2 == 0:
                    raise SpecError(f"unit {name}: no precondition `{fl[len('drop_requires='):]}` found in unit {u['unit']}")
                meta_all["log"].append(f"imported unit {u['unit']}: {n1 + n2} precondition lines `{fl[len('drop_requires='):]}(..)` dropped for this unit")
        # lemmas of an imported unit are verified in their own unit: here they are only used
        prel = re.sub(r"(?m)^(pub (?:broadcast )?proof fn )", r"#[verifier::external_body] \1", prel)
        prel = prel.replace("#[verifier::external_body]\n#[verifier::external_body] pub proof fn", "#[verifier::external_body]\npub proof fn")
        parts.append(prel)
        parts.append(t)
        parts.append(h)
        if "with_post" in u["flags"]:
            parts.append(dep["post"])
        meta_all["errors"] += m["errors"]
        meta_all["imported_fns"] += m["fns"]
    t, h, m = gen_sources(unit, canary=({} if canary else None))
    parts.append(f"// ======== unit `{name}`: spec prelude ========\n")
    prel_own = unit["prelude"]
    if name.startswith("lang_"):
        prel_own = reorder_model(prel_own, name[len("lang_"):], m.get("matches", []), m["log"])
    parts.append(prel_own)
    parts.append(f"// ======== unit `{name}`: extracted code ========\n")
    parts.append(t)
    if h:
        parts.append("// ======== hoisted helpers (R7/R12): verbatim bodies, assumed specs ========\n")
        parts.append(h)
    parts.append(f"// ======== unit `{name}`: lemmas and drivers ========\n")
    parts.append(unit["post"])
    # Verus allows one module-level `broadcast use` per module: merge them
    body = "".join(parts)
    names = []
    def _grab(m):
        for n in m.group(1).split(","):
            n = n.strip()
            if n and n not in names:
                names.append(n)
        return ""
    body = re.sub(r"(?m)^broadcast use ([^;]*);[ \t]*$", _grab, body)
    parts = [body]
    if names:
        parts.append("broadcast use " + ", ".join(names) + ";\n")
    parts.append(FOOTER)
    for k in ("log", "fns", "warnings", "errors", "items"):
        meta_all[k] += m[k]
    if name in ("lang_de", "lang_it", "lang_nl"):
        meta_all["errors"] += check_source_pins("splitter.json")
        meta_all["log"].append("pins: WordSplitter::{new, split, is_splittable}, WordSplitIterator::{new, next} (src/tokenizer.rs) compared with specs/pins/splitter.json")
    os.makedirs(BUILD, exist_ok=True)
    out = os.path.join(BUILD, (outname or name) + ("_canary" if canary else "") + ".rs")
    with open(out, "w", encoding="utf-8") as f:
        f.write("".join(parts))
    meta_all["path"] = out
    meta_all["fn_props"] = fn_props
    meta_all["fn_base"] = dict(unit.get("fn_base", {}))
    meta_all["unit"] = unit
    return meta_all


if __name__ == "__main__":
    m = gen_unit(sys.argv[1], canary=len(sys.argv) > 2 and sys.argv[2] == "canary")
    print(m["path"])
    for k in ("errors", "warnings"):
        for e in m[k]:
            print(k.upper(), e)
    for l in m["log"]:
        print("LOG", l)
