//! rustc discharges these bounds or rejects the crate (error E0277 names the offending field type).
use text2num::lang::{Dutch, English, French, German, Italian, Portuguese, Spanish};
use text2num::Language;

fn assert_send_sync<T: Send + Sync>() {}

fn main() {
    assert_send_sync::<English>();
    assert_send_sync::<French>();
    assert_send_sync::<German>();
    assert_send_sync::<Italian>();
    assert_send_sync::<Spanish>();
    assert_send_sync::<Dutch>();
    assert_send_sync::<Portuguese>();
    assert_send_sync::<Language>();
    println!("8 Send + Sync assertions accepted by rustc");
}
