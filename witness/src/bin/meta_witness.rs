//! Metamorphic witness search on the REAL crate (decoration only): finds a corpus sentence on which a
//! relation demanded by a property fails.  modes: case | ws
//! The corpus is harvested from the string literals of /repo/src/lang/<code>/mod.rs (test phrases).
use std::panic::{catch_unwind, AssertUnwindSafe};
use text2num::{replace_numbers_in_text, Language};

fn lang(code: &str) -> Language {
    match code {
        "en" => Language::english(),
        "fr" => Language::french(),
        "de" => Language::german(),
        "it" => Language::italian(),
        "es" => Language::spanish(),
        "nl" => Language::dutch(),
        _ => Language::portuguese(),
    }
}

fn corpus(repo: &str, code: &str) -> Vec<String> {
    let p = format!("{}/src/lang/{}/mod.rs", repo, code);
    let src = std::fs::read_to_string(p).unwrap_or_default();
    let mut out = Vec::new();
    let mut cur = String::new();
    let mut in_str = false;
    let mut esc = false;
    for c in src.chars() {
        if in_str {
            if esc {
                esc = false;
                cur.push(c);
            } else if c == '\\' {
                esc = true;
            } else if c == '"' {
                in_str = false;
                if cur.contains(' ') && cur.len() < 120 && !cur.contains('{') {
                    out.push(cur.clone());
                }
                cur.clear();
            } else {
                cur.push(c);
            }
        } else if c == '"' {
            in_str = true;
        }
    }
    out.sort();
    out.dedup();
    out
}

fn run(text: &str, l: &Language, th: f64) -> Option<String> {
    catch_unwind(AssertUnwindSafe(|| replace_numbers_in_text(text, l, th))).ok()
}

fn main() {
    std::panic::set_hook(Box::new(|_| {}));
    let args: Vec<String> = std::env::args().collect();
    let mode = args.get(1).cloned().unwrap_or_default();
    if mode == "--replay" {
        let v: serde_json::Value = serde_json::from_str(&args[2]).unwrap();
        let l = lang(v["lang"].as_str().unwrap_or("en"));
        let th = v["threshold"].as_f64().unwrap_or(0.0);
        if v["mode"].as_str() == Some("ctx") {
            let (a, b, sep) = (v["a"].as_str().unwrap_or(""), v["b"].as_str().unwrap_or(""), v["sep"].as_str().unwrap_or(""));
            let want = format!("{}{}{}", run(a, &l, th).unwrap_or_default(), sep, run(b, &l, th).unwrap_or_default());
            let got = run(&format!("{}{}{}", a, sep, b), &l, th);
            println!("parts  : {:?}", want);
            println!("whole  : {:?}", got);
            if got.as_deref() != Some(want.as_str()) {
                println!("REPRODUCED: rewriting the whole text differs from rewriting its two parts");
                std::process::exit(1);
            }
            println!("not reproduced");
            return;
        }
        let a = run(v["text"].as_str().unwrap_or(""), &l, th);
        let b = run(v["variant"].as_str().unwrap_or(""), &l, th);
        println!("base   : {:?} -> {:?}", v["text"].as_str().unwrap_or(""), a);
        println!("variant: {:?} -> {:?}", v["variant"].as_str().unwrap_or(""), b);
        let norm = |x: &Option<String>| x.as_ref().map(|r| r.to_lowercase().split_whitespace().collect::<Vec<_>>().join(" "));
        if norm(&a) != norm(&b) || a.is_none() {
            println!("REPRODUCED: the two inputs are not converted alike");
            std::process::exit(1);
        }
        println!("not reproduced");
        return;
    }
    let repo = args.get(2).cloned().unwrap_or("/repo".into());
    if mode == "ctx" {
        // context independence: rewrite(A S B) == rewrite(A) S rewrite(B) for a strong separator S
        let sep = " xyzzy xyzzy xyzzy. ";
        for code in ["fr", "en", "es", "pt", "it", "de", "nl"] {
            let l = lang(code);
            let mut c = corpus(&repo, code);
            c.truncate(40);
            if code == "fr" {
                c.insert(0, "du cent neuf".to_string());
                // a determiner at the end of the first part is four words before a "neuf" that opens the second part (separator of three words)
                c.insert(0, "il a vendu le".to_string());
                c.insert(0, "neuf clients attendaient dehors".to_string());
                c.insert(0, "le vingt neuf".to_string());
            }
            for a in &c {
                for b in &c {
                    for th in [10.0f64, 0.0] {
                        let (ra, rb) = match (run(a, &l, th), run(b, &l, th)) {
                            (Some(x), Some(y)) => (x, y),
                            _ => continue,
                        };
                        let whole = format!("{}{}{}", a, sep, b);
                        let want = format!("{}{}{}", ra, sep, rb);
                        let got = run(&whole, &l, th);
                        if got.as_deref() != Some(want.as_str()) {
                            println!("{}", serde_json::json!({"kind":"meta","mode":"ctx","lang":code,"threshold":th,"text":whole,"variant":whole,
                                "a":a,"b":b,"sep":sep,"expected":want,"variant_result":got}));
                            return;
                        }
                    }
                }
            }
        }
        println!("{}", serde_json::json!({"kind":"none"}));
        return;
    }
    for code in ["en", "fr", "es", "pt", "it", "de", "nl"] {
        let l = lang(code);
        let mut texts = corpus(&repo, code);
        // shapes the test literals do not have: a detached or glued full stop, a comma and a dash between two small numbers
        let (a, b) = match code { "en" => ("one", "two"), "fr" => ("un", "deux"), "es" => ("uno", "dos"), "pt" => ("um", "dois"), "it" => ("uno", "due"), "de" => ("eins", "zwei"), _ => ("een", "twee") };
        for sep in [" . ", ". ", " , ", ", ", " - ", " ; "] {
            texts.push(format!("{}{}{}", a, sep, b));
            texts.push(format!("x {}{}{} y", a, sep, b));
        }
        for text in texts {
            // ws: every space replaced by another kind (or amount) of Unicode whitespace, one kind at a time
            let kinds: Vec<&str> = if mode == "ws" { vec!["\u{a0}\t", "\t", "\n", "\r\n", "  ", "\u{b}", "\u{c}", "\u{85}", "\u{2009}", "\u{202f}", "\u{3000}", "\u{2028}"] } else { vec![""] };
            for th in [10.0f64, 0.0] {
              for kind in &kinds {
                let base = match run(&text, &l, th) {
                    Some(b) => b,
                    None => continue,
                };
                let (variant, ok): (String, Box<dyn Fn(&str) -> bool>) = match mode.as_str() {
                    "case" => {
                        let up = text.to_uppercase();
                        if up.to_lowercase() != text.to_lowercase() {
                            continue;
                        }
                        let b = base.to_lowercase();
                        (up, Box::new(move |r: &str| r.to_lowercase() == b))
                    }
                    "ws" => {
                        let v: String = text.split(' ').collect::<Vec<_>>().join(kind);
                        let b: String = base.split_whitespace().collect::<Vec<_>>().join(" ");
                        (v, Box::new(move |r: &str| r.split_whitespace().collect::<Vec<_>>().join(" ") == b))
                    }
                    _ => return,
                };
                let got = run(&variant, &l, th);
                let good = match &got {
                    Some(r) => ok(r),
                    None => false,
                };
                if !good {
                    println!(
                        "{}",
                        serde_json::json!({"kind":"meta","mode":mode,"lang":code,"threshold":th,"text":text,"variant":variant,
                            "base_result":base,"variant_result":got})
                    );
                    return;
                }
              }
            }
        }
    }
    println!("{}", serde_json::json!({"kind":"none"}));
}
