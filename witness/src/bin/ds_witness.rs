//! Bounded search for a concrete DigitString operation sequence on which the real code disagrees with
//! the executable transliteration of the L1 spec functions (specs/ds.vspec).  Decoration only.
use std::panic::{catch_unwind, AssertUnwindSafe};
use text2num::digit_string::DigitString;

#[derive(Clone, Debug, PartialEq)]
struct Model {
    buf: Vec<u8>,
    lz: usize,
    frozen: bool,
}

#[derive(Clone, Debug)]
enum Op {
    Put(Vec<u8>),
    PutDigitAt(u8, usize),
    Shift(usize),
    Fput(Vec<u8>),
    Push(Vec<u8>),
    Freeze,
    Reset,
}

fn zeros(s: &[u8]) -> bool {
    s.iter().all(|c| *c == b'0')
}

fn lead_zeros(s: &[u8]) -> usize {
    s.iter().take_while(|c| **c == b'0').count()
}

/// executable copy of put_ok/put_new, pda_*, shift_*, fput_new (spec layer L1)
fn model_apply(m: &Model, op: &Op) -> (bool, Model) {
    let mut n = m.clone();
    match op {
        Op::Put(d) => {
            if m.frozen {
                return (false, n);
            }
            if m.buf.is_empty() && d.as_slice() == b"0" {
                n.lz += 1;
                return (true, n);
            }
            if zeros(d) {
                return (false, n);
            }
            if m.buf.is_empty() {
                n.buf = d.clone();
                return (true, n);
            }
            let l = m.buf.len();
            if l >= d.len() && zeros(&m.buf[l - d.len()..]) {
                n.buf.truncate(l - d.len());
                n.buf.extend_from_slice(d);
                return (true, n);
            }
            (false, n)
        }
        Op::PutDigitAt(d, p) => {
            if m.frozen || *d == b'0' {
                return (false, n);
            }
            let l = m.buf.len();
            if *p >= l {
                let mut b = vec![*d];
                b.extend(std::iter::repeat(b'0').take(p - l));
                b.extend_from_slice(&m.buf);
                n.buf = b;
                (true, n)
            } else if m.buf[l - 1 - p] == b'0' {
                n.buf[l - 1 - p] = *d;
                (true, n)
            } else {
                (false, n)
            }
        }
        Op::Shift(p) => {
            let p = *p;
            if m.frozen {
                return (false, n);
            }
            if p == 0 {
                return (true, n);
            }
            let l = m.buf.len();
            if l == 0 {
                n.buf = vec![b'1'];
                n.buf.extend(std::iter::repeat(b'0').take(p));
                return (true, n);
            }
            if l <= p {
                n.buf.extend(std::iter::repeat(b'0').take(p));
                return (true, n);
            }
            let mut low = m.buf[l - p..].to_vec();
            let mut pz = lead_zeros(&low);
            if pz == p {
                low[p - 1] = b'1';
                pz = p - 1;
            }
            let span = 2 * p - pz;
            if l >= span && zeros(&m.buf[l - span..l - p]) {
                let mut b = m.buf[..l - span].to_vec();
                b.extend_from_slice(&low[pz..]);
                b.extend(std::iter::repeat(b'0').take(p));
                n.buf = b;
                (true, n)
            } else {
                (false, n)
            }
        }
        Op::Fput(d) => {
            if m.frozen {
                return (false, n);
            }
            let l = m.buf.len();
            if l == 0 || l < d.len() {
                n.buf = d.clone();
            } else {
                n.buf.truncate(l - d.len());
                n.buf.extend_from_slice(d);
            }
            (true, n)
        }
        Op::Push(d) => {
            n.buf.extend_from_slice(d);
            (true, n)
        }
        Op::Freeze => {
            n.frozen = true;
            (true, n)
        }
        Op::Reset => (true, Model { buf: vec![], lz: 0, frozen: false }),
    }
}

fn real_apply(ds: &mut DigitString, op: &Op) -> bool {
    match op {
        Op::Put(d) => ds.put(d).is_ok(),
        Op::PutDigitAt(d, p) => ds.put_digit_at(*d, *p).is_ok(),
        Op::Shift(p) => ds.shift(*p).is_ok(),
        Op::Fput(d) => ds.fput(d).is_ok(),
        Op::Push(d) => ds.push(d).is_ok(),
        Op::Freeze => {
            ds.freeze();
            true
        }
        Op::Reset => {
            ds.reset();
            true
        }
    }
}

fn render(m: &Model) -> String {
    let mut s = "0".repeat(m.lz);
    s.push_str(std::str::from_utf8(&m.buf).unwrap());
    s
}

/// compare every query of the real builder with the model; returns a description of the first difference
fn compare(ds: &DigitString, m: &Model) -> Option<(String, String)> {
    let r = catch_unwind(AssertUnwindSafe(|| {
        // state observers first: a difference here is the fault of the operation just executed
        if ds.to_string() != render(m) || ds.peek(64) != &m.buf[..] {
            return Some(("".to_string(), format!("to_string() = {:?}, spec says {:?}", ds.to_string(), render(m))));
        }
        if ds.len() != m.buf.len() + m.lz {
            return Some(("len".into(), format!("len() = {}, spec says {}", ds.len(), m.buf.len() + m.lz)));
        }
        if ds.is_empty() != (m.buf.is_empty() && m.lz == 0) {
            return Some(("is_empty".into(), "is_empty() differs".into()));
        }
        if ds.is_null() != m.buf.is_empty() {
            return Some(("is_null".into(), "is_null() differs".into()));
        }
        for p in 0..6usize {
            let l = m.buf.len();
            let pk = if p >= l { &m.buf[..] } else { &m.buf[l - p..] };
            if ds.peek(p) != pk {
                return Some(("peek".into(), format!("peek({}) differs", p)));
            }
            let free = (m.buf.is_empty() && m.lz == 0) || zeros(pk);
            if ds.is_free(p) != free {
                return Some(("is_free".into(), format!("is_free({}) differs", p)));
            }
            let pos_free = |q: usize| q >= l || m.buf[l - 1 - q] == b'0';
            match catch_unwind(AssertUnwindSafe(|| ds.is_position_free(p))) {
                Ok(v) => {
                    if v != pos_free(p) {
                        return Some(("is_position_free".into(), format!("is_position_free({}) = {}, spec says {}", p, v, pos_free(p))));
                    }
                }
                Err(_) => return Some(("is_position_free".into(), format!("is_position_free({}) panicked", p))),
            }
            for e in (p + 1)..7usize {
                let want = (p..=e).all(pos_free);
                match catch_unwind(AssertUnwindSafe(|| ds.is_range_free(p, e))) {
                    Ok(v) => {
                        if v != want {
                            return Some(("is_range_free".into(), format!("is_range_free({},{}) = {}, spec says {}", p, e, v, want)));
                        }
                    }
                    Err(_) => return Some(("is_range_free".into(), format!("is_range_free({},{}) panicked", p, e))),
                }
            }
        }
        None
    }));
    match r {
        Ok(x) => x,
        Err(_) => Some(("".into(), "a query (to_string/len/peek/is_free) panicked".into())),
    }
}

fn op_name(op: &Op) -> &'static str {
    match op {
        Op::Put(_) => "put",
        Op::PutDigitAt(..) => "put_digit_at",
        Op::Shift(_) => "shift",
        Op::Fput(_) => "fput",
        Op::Push(_) => "push",
        Op::Freeze => "freeze",
        Op::Reset => "reset",
    }
}

fn op_json(op: &Op) -> serde_json::Value {
    use serde_json::json;
    match op {
        Op::Put(d) => json!({"op":"put","digits":String::from_utf8_lossy(d)}),
        Op::PutDigitAt(d, p) => json!({"op":"put_digit_at","digit":(*d as char).to_string(),"position":p}),
        Op::Shift(p) => json!({"op":"shift","positions":p}),
        Op::Fput(d) => json!({"op":"fput","digits":String::from_utf8_lossy(d)}),
        Op::Push(d) => json!({"op":"push","digits":String::from_utf8_lossy(d)}),
        Op::Freeze => json!({"op":"freeze"}),
        Op::Reset => json!({"op":"reset"}),
    }
}

fn op_from(v: &serde_json::Value) -> Op {
    let s = |k: &str| v[k].as_str().unwrap_or("").as_bytes().to_vec();
    let n = |k: &str| v[k].as_u64().unwrap_or(0) as usize;
    match v["op"].as_str().unwrap() {
        "put" => Op::Put(s("digits")),
        "put_digit_at" => Op::PutDigitAt(s("digit")[0], n("position")),
        "shift" => Op::Shift(n("positions")),
        "fput" => Op::Fput(s("digits")),
        "push" => Op::Push(s("digits")),
        "freeze" => Op::Freeze,
        _ => Op::Reset,
    }
}

/// run a sequence on the real builder and the model; report first disagreement
fn run_seq(ops: &[Op], only: &str) -> Option<(usize, String)> {
    let mut ds = DigitString::new();
    let mut m = Model { buf: vec![], lz: 0, frozen: false };
    let want = |f: &str| only.is_empty() || only == f;
    if let Some((q, d)) = compare(&ds, &m) {
        let f = if q.is_empty() { "new".to_string() } else { q };
        if want(&f) {
            return Some((0, format!("on a new builder: {}", d)));
        }
    }
    for (i, op) in ops.iter().enumerate() {
        let (ok, n) = model_apply(&m, op);
        let got = match catch_unwind(AssertUnwindSafe(|| real_apply(&mut ds, op))) {
            Ok(g) => g,
            Err(_) => {
                if want(op_name(op)) {
                    return Some((i, format!("{} panicked", op_name(op))));
                } else {
                    return None;
                }
            }
        };
        if got != ok {
            if !want(op_name(op)) {
                return None;
            }
            return Some((i, format!("{} returned {}, spec says {}", op_name(op), if got { "Ok" } else { "Err" }, if ok { "Ok" } else { "Err" })));
        }
        m = n;
        if let Some((q, d)) = compare(&ds, &m) {
            let f = if q.is_empty() { op_name(op).to_string() } else { q.clone() };
            if want(&f) {
                return Some((i, format!("after {} ({}): {}", op_name(op), if ok { "Ok" } else { "Err: state must be unchanged" }, d)));
            }
            if q.is_empty() {
                return None; // state diverged because of another function: stop following this sequence
            }
        }
    }
    None
}

fn main() {
    let args: Vec<String> = std::env::args().collect();
    std::panic::set_hook(Box::new(|_| {}));
    if args.len() >= 3 && args[1] == "--replay" {
        let v: serde_json::Value = serde_json::from_str(&args[2]).unwrap();
        let ops: Vec<Op> = v.as_array().unwrap().iter().map(op_from).collect();
        let only = args.get(3).cloned().unwrap_or_default();
        match run_seq(&ops, &only) {
            Some((i, d)) => {
                println!("REPRODUCED at step {}: {}", i, d);
                std::process::exit(1);
            }
            None => {
                println!("not reproduced: real code agrees with the spec on this sequence");
                std::process::exit(0);
            }
        }
    }
    let target = args.get(1).cloned().unwrap_or_default(); // function name filter ("" = any)
    let depth: usize = args.get(2).and_then(|s| s.parse().ok()).unwrap_or(3);
    let mut alphabet: Vec<Op> = vec![Op::Freeze, Op::Reset];
    for d in ["0", "1", "5", "10", "12", "100", "00", "305", ""] {
        alphabet.push(Op::Put(d.as_bytes().to_vec()));
    }
    for d in [b'0', b'3'] {
        for p in 0..5 {
            alphabet.push(Op::PutDigitAt(d, p));
        }
    }
    for p in [0usize, 1, 2, 3, 6] {
        alphabet.push(Op::Shift(p));
    }
    for d in ["7", "42", "0"] {
        alphabet.push(Op::Fput(d.as_bytes().to_vec()));
    }
    alphabet.push(Op::Push(b"3".to_vec()));
    // iterative deepening
    let mut tried = 0u64;
    for dlen in 0..=depth {
        let mut idx = vec![0usize; dlen];
        loop {
            let ops: Vec<Op> = idx.iter().map(|&i| alphabet[i].clone()).collect();
            tried += 1;
            if let Some((i, d)) = run_seq(&ops, &target) {
                let seq: Vec<serde_json::Value> = ops[..(i + 1).min(ops.len())].iter().map(op_json).collect();
                println!("{}", serde_json::json!({"kind":"ds_ops","ops":seq,"what":d,"tried":tried}));
                return;
            }
            // next
            let mut k = dlen;
            loop {
                if k == 0 {
                    break;
                }
                k -= 1;
                idx[k] += 1;
                if idx[k] < alphabet.len() {
                    break;
                }
                idx[k] = 0;
                if k == 0 {
                    k = usize::MAX;
                    break;
                }
            }
            if dlen == 0 || k == usize::MAX {
                break;
            }
        }
    }
    println!("{}", serde_json::json!({"kind":"none","tried":tried}));
}
