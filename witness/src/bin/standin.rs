//! Bounded stand-in checks on the REAL crate (public API only). Used when the deductive verifier cannot decide a property on
//! the current tree (unsupported construct, lost anchor of a pinned closure chain): a finite, stated set of cases is run and a
//! case that contradicts the property is reported with its input. Never counted as proof; finding nothing decides nothing.
//!
//!   standin <mode> [repo]            search; prints one JSON line: {"kind":"standin",...} or {"kind":"none","cases":N}
//!   standin --replay '<json>'        re-runs the recorded case; exit 1 = reproduced
//!   standin phrases <file> [zeros]   spelled numbers from tools/spell.py (C01, C16)
//! modes: ident, stream (C02)  dec (C05)  wf (C06)  consist (C07)  thr (C09)  iter (C15)  orule (C18)  ncase (C11)  facade (C13)  punct (C10)  ozero (C16)
use std::panic::{catch_unwind, AssertUnwindSafe};
use text2num::word_to_digit::Replace;
use text2num::lang::{Dutch, English, French, German, Italian, Portuguese, Spanish};
use text2num::{LangInterpreter, find_numbers, find_numbers_iter, replace_numbers_in_stream, replace_numbers_in_text, text2digits, Language, Occurence, Token};

const LANGS: [&str; 7] = ["en", "fr", "es", "pt", "it", "de", "nl"];

fn lang(code: &str) -> Language {
    match code {
        "en" => Language::english(),
        "fr" => Language::french(),
        "de" => Language::german(),
        "it" => Language::italian(),
        "es" => Language::spanish(),
        "nl" => Language::dutch(),
        _ => Language::portuguese(),
    }
}

#[derive(Clone, Debug)]
struct Tok {
    text: String,
    lower: String,
    nan: bool,
    pause: bool, // unrelated to the previous token
}
impl Tok {
    fn w(t: &str) -> Tok {
        Tok { text: t.to_string(), lower: t.to_lowercase(), nan: false, pause: false }
    }
}
impl Token for Tok {
    fn text(&self) -> &str {
        &self.text
    }
    fn text_lowercase(&self) -> &str {
        &self.lower
    }
    fn nt_separated(&self, _previous: &Self) -> bool {
        self.pause
    }
    fn not_a_number_part(&self) -> bool {
        self.nan
    }
}

/// a token that keeps the trait's DEFAULT hint methods (no pause, never "not a number part")
#[derive(Clone, Debug)]
struct Plain {
    text: String,
    lower: String,
}
impl Token for Plain {
    fn text(&self) -> &str {
        &self.text
    }
    fn text_lowercase(&self) -> &str {
        &self.lower
    }
}

/// a token that remembers which input words it was made from (stream rewriting must keep or hand over every token exactly once)
#[derive(Clone, Debug)]
struct Prov {
    text: String,
    lower: String,
    src: Vec<String>,
}
impl Token for &Prov {
    fn text(&self) -> &str {
        &self.text
    }
    fn text_lowercase(&self) -> &str {
        &self.lower
    }
    fn nt_separated(&self, _previous: &Self) -> bool {
        false
    }
    fn not_a_number_part(&self) -> bool {
        false
    }
}
impl Replace for Prov {
    fn replace<I: Iterator<Item = Self>>(replaced: I, data: String) -> Self {
        let mut src = Vec::new();
        for t in replaced {
            src.extend(t.src);
        }
        Prov { lower: data.to_lowercase(), text: data, src }
    }
}

/// word stream from a phrase: "|" before a word = pause hint, "!" before a word = not-a-number hint
fn toks(phrase: &str) -> Vec<Tok> {
    phrase
        .split_whitespace()
        .map(|w| {
            let mut t = Tok::w(w.trim_start_matches(['|', '!']));
            t.pause = w.starts_with('|');
            t.nan = w.starts_with('!');
            t
        })
        .collect()
}

fn occs(v: &[Occurence]) -> Vec<(usize, usize, String, String, bool)> {
    v.iter().map(|o| (o.start, o.end, o.text.clone(), format!("{}", o.value), o.is_ordinal)).collect()
}

/// (language, phrase) pairs used by several modes: number phrases inside ordinary words
fn streams() -> Vec<(&'static str, &'static str)> {
    vec![
        ("en", "one two"),
        ("en", "I counted one two"),
        ("en", "we counted one then two and three sheep"),
        ("en", "twenty |five"),
        ("en", "call one hundred |forty two now"),
        ("en", "one dog saw twenty thirty forty"),
        ("en", "first second"),
        ("en", "the third man had twenty one dollars and fifty cents"),
        ("en", "three !four five"),
        ("en", "two thousand and nineteen point zero five percent"),
        ("en", "one"),
        ("en", "nothing here"),
        ("fr", "trente |sept cents"),
        ("fr", "un chien a vu vingt trente quarante"),
        ("fr", "un deux"),
        ("fr", "cent vingt virgule zéro cinq pour cent"),
        ("fr", "le premier et le vingt et unième"),
        ("es", "uno dos"),
        ("es", "un perro vio veinte treinta cuarenta"),
        ("es", "ciento veinte coma cero cinco"),
        ("es", "se repartieron tres onceavos del total"),
        ("pt", "um dois"),
        ("pt", "um cão viu vinte trinta quarenta"),
        ("it", "uno due"),
        ("it", "un cane ha visto venti trenta quaranta"),
        ("de", "eins zwei"),
        ("de", "zwanzig |drei uhr"),
        ("de", "ein hund sah zwanzig dreißig vierzig"),
        ("nl", "een twee"),
        ("nl", "een hond zag twintig dertig veertig"),
    ]
}

/// C13: the same calls through the concrete interpreter type and through the runtime-selectable `Language`
fn facade_diff<L: LangInterpreter>(concrete: &L, fac: &Language, phrase: &str) -> Option<String> {
    let (a, b) = (text2digits(phrase, concrete), text2digits(phrase, fac));
    if format!("{:?}", a) != format!("{:?}", b) {
        return Some(format!("text2digits({:?}) = {:?} through the concrete type but {:?} through Language", phrase, a, b));
    }
    for th in [0.0f64, 10.0] {
        let (a, b) = (replace_numbers_in_text(phrase, concrete, th), replace_numbers_in_text(phrase, fac, th));
        if a != b {
            return Some(format!("replace_numbers_in_text({:?}, threshold {}) = {:?} through the concrete type but {:?} through Language", phrase, th, a, b));
        }
    }
    let ts = toks(phrase);
    let (a, b) = (find_numbers(ts.clone().into_iter(), concrete, 10.0), find_numbers(ts.into_iter(), fac, 10.0));
    if occs(&a) != occs(&b) {
        return Some(format!("find_numbers({:?}, threshold 10) = {:?} through the concrete type but {:?} through Language", phrase, occs(&a), occs(&b)));
    }
    None
}
fn facade_by_code(code: &str, phrase: &str) -> Option<String> {
    let fac = lang(code);
    match code {
        "en" => facade_diff(&English::new(), &fac, phrase),
        "fr" => facade_diff(&French::new(), &fac, phrase),
        "de" => facade_diff(&German::new(), &fac, phrase),
        "it" => facade_diff(&Italian::new(), &fac, phrase),
        "es" => facade_diff(&Spanish::new(), &fac, phrase),
        "nl" => facade_diff(&Dutch::new(), &fac, phrase),
        _ => facade_diff(&Portuguese::new(), &fac, phrase),
    }
}
/// every word of the language's grammar table (generated from the code's own match arms) plus a few function words
fn vocabulary(code: &str) -> Vec<String> {
    let rows = match code {
        "en" => include_str!("../../../specs/templates/en_rows.json"),
        "fr" => include_str!("../../../specs/templates/fr_rows.json"),
        "de" => include_str!("../../../specs/templates/de_rows.json"),
        "it" => include_str!("../../../specs/templates/it_rows.json"),
        "es" => include_str!("../../../specs/templates/es_rows.json"),
        "nl" => include_str!("../../../specs/templates/nl_rows.json"),
        _ => include_str!("../../../specs/templates/pt_rows.json"),
    };
    let v: serde_json::Value = serde_json::from_str(rows).unwrap_or(serde_json::Value::Null);
    let mut out: Vec<String> = v.as_array().map(|a| a.iter().filter_map(|r| r["word"].as_str().map(|s| s.to_string())).collect()).unwrap_or_default();
    let extra: &[&str] = match code {
        "en" => &["a", "an", "the", "and", "point", "o", "dog", ","],
        "fr" => &["un", "une", "le", "et", "virgule", "chien", ","],
        "de" => &["ein", "eine", "der", "und", "komma", "hund", ","],
        "it" => &["un", "una", "il", "e", "virgola", "cane", ","],
        "es" => &["un", "una", "el", "y", "coma", "perro", ","],
        "nl" => &["een", "de", "en", "komma", "hond", ","],
        _ => &["um", "uma", "o", "e", "vírgula", "cão", ","],
    };
    for e in extra { if !out.iter().any(|w| w == e) { out.push(e.to_string()); } }
    out
}

fn repo_dir() -> String {
    let a: Vec<String> = std::env::args().collect();
    if a.get(1).map(|m| m == "--replay").unwrap_or(false) { return std::env::var("VERIF_REPO").unwrap_or_else(|_| "/repo".to_string()); }
    a.get(2).cloned().filter(|p| std::path::Path::new(p).is_dir()).unwrap_or_else(|| std::env::var("VERIF_REPO").unwrap_or_else(|_| "/repo".to_string()))
}

/// single-word entries of a language's INSIGNIFICANT set, read from the repository's vocabulary file as it is now
fn linking_words(code: &str) -> Vec<String> {
    let mut words: Vec<String> = Vec::new();
    if let Ok(text) = std::fs::read_to_string(format!("{}/src/lang/{}/vocabulary.rs", repo_dir(), code)) {
        if let Some(pos) = text.find("INSIGNIFICANT") {
            let body = &text[pos..];
            let end = body.find("};").unwrap_or(body.len());
            let mut rest = &body[..end];
            while let Some(q) = rest.find('"') {
                let tail = &rest[q + 1..];
                if let Some(e) = tail.find('"') {
                    let w = &tail[..e];
                    if !w.is_empty() && !w.contains(' ') { words.push(w.to_string()); }
                    rest = &tail[e + 1..];
                } else { break; }
            }
        }
    }
    words
}

struct Case {
    descr: serde_json::Value,
    run: Box<dyn Fn() -> Option<String>>,
}

fn guard<F: Fn() -> Option<String> + 'static>(f: F) -> Box<dyn Fn() -> Option<String>> {
    Box::new(move || match catch_unwind(AssertUnwindSafe(|| f())) {
        Ok(r) => r,
        Err(_) => Some("the call panicked".to_string()),
    })
}

fn cases(mode: &str) -> Vec<Case> {
    let mut out: Vec<Case> = Vec::new();
    match mode {
        // C03: every entry point returns (no panic) on degenerate texts and on number sequences, at ordinary and non-finite thresholds
        "total" => {
            let degenerate = ["", " ", "\t\n", "-", "--", "- -", "'", "\u{a0}", "é", "e\u{301}", "𝟙", "zero", "o", "and", "et", "y", "point", "virgule",
                "twenty first , second", "zero first second", "first second third", "one , two , three", "twenty first second twelve thirteen",
                "vingt et unième , deuxième", "ventunesimo , secondo", "einundzwanzigste , zweite", "vigésimo primeiro , segundo", "thousand thousand",
                "ten thousand thousand", "twelve million million", "hundred hundred", "billion billion", "zero zero zero", "point five", "five point", "five point point five"];
            let mut texts: Vec<String> = degenerate.iter().map(|t| t.to_string()).collect();
            for (_, p) in streams() { texts.push(p.replace('|', "").replace('!', "")); }
            texts.push("nine hundred ninety nine ".repeat(40));
            for code in LANGS {
                for t in &texts {
                    let (c, t) = (code.to_string(), t.clone());
                    out.push(Case {
                        descr: serde_json::json!({"mode":"total","lang":code,"text":t}),
                        run: guard(move || {
                            let l = lang(&c);
                            let _ = text2digits(&t, &l);
                            for th in [0.0, 10.0, 100.0, f64::INFINITY, f64::NEG_INFINITY, f64::NAN, -1.0] {
                                let _ = replace_numbers_in_text(&t, &l, th);
                                let ts: Vec<Tok> = t.split_whitespace().map(Tok::w).collect();
                                let _ = find_numbers(ts.clone().into_iter(), &l, th);
                                let mut it = find_numbers_iter(ts.into_iter(), &l, th);
                                let mut n = 0;
                                while it.next().is_some() { n += 1; if n > 10_000 { return Some("the lazy iterator does not end".to_string()); } }
                            }
                            None
                        }),
                    });
                }
                // every ordered pair of words of the grammar table (plus function words), after a zero word and around one: no panic
                let voc = vocabulary(code);
                let z = match code { "fr" => "zéro", "es" => "cero", "de" => "null", "nl" => "nul", _ => "zero" };
                for w1 in voc.clone() {
                    let (c, voc2, z) = (code.to_string(), voc.clone(), z.to_string());
                    out.push(Case {
                        descr: serde_json::json!({"mode":"total","lang":code,"first_word":w1}),
                        run: guard(move || {
                            let l = lang(&c);
                            for w2 in &voc2 {
                                for t in [format!("{} {} {}", z, w1, w2), format!("{} {} {}", w1, z, w2), format!("{} {}", w1, w2)] {
                                    let _ = text2digits(&t, &l);
                                    let _ = replace_numbers_in_text(&t, &l, 10.0);
                                }
                            }
                            None
                        }),
                    });
                }
            }
        }
        // C02: a text without number words comes back identical; around a number, the rest of the text is kept verbatim
        "ident" => {
            let plain = [
                "pre- and post-war houses", "wait-- what", "a-", "-a", "well - said", "l'été, c'est fini !", "un po' d'acqua", "tab\tand\nnewline",
                "  leading and trailing  ", "dots... and,commas;semi:colons", "\u{a0}nbsp\u{a0}here\u{a0}", "x-ray vision; e-mail", "“quoted” – dash — em",
                "hello world", "", " ", "--", "'", "(parenthesised) [bracketed] {braced}", "émigré naïve façade", "100% pure 3D", "mother-in-law's",
                // letters whose lower-case form has a different UTF-8 length (capital sharp s, Kelvin and Angstrom signs, dotted capital I, U+023A)
                "HAUPTSTRAẞE lang, Berlin.", "300 \u{212a} warm, 5 \u{212b} wide.", "\u{130}stanbul'da güzel bir gün.", "\u{23a}\u{23e} end of line.",
            ];
            for code in LANGS {
                for t in plain {
                    let (c, t) = (code.to_string(), t.to_string());
                    // only texts that contain no number word for this language are used (decided on the word level by the validator)
                    out.push(Case {
                        descr: serde_json::json!({"mode":"ident","lang":code,"text":t}),
                        run: guard(move || {
                            let l = lang(&c);
                            let has_number = t
                                .split(|ch: char| !ch.is_alphanumeric())
                                .any(|w| !w.is_empty() && (text2digits(w, &l).is_ok() || w.chars().all(|d| d.is_ascii_digit())));
                            if has_number {
                                return None;
                            }
                            for th in [0.0, 10.0] {
                                let r = replace_numbers_in_text(&t, &l, th);
                                if r != t {
                                    return Some(format!("text without number words was changed: {:?} -> {:?} (threshold {})", t, r, th));
                                }
                            }
                            None
                        }),
                    });
                }
            }
            let frames = [("pre- and ", " post-war."), ("(", ")"), ("wait-- ", " -- ok"), ("\u{a0}", "\u{a0}!"), ("a,", ";b"), ("“", "”")];
            let nums = [("en", "twenty five", "25"), ("fr", "vingt-cinq", "25"), ("es", "veinticinco", "25"), ("pt", "vinte e cinco", "25"),
                        ("it", "venticinque", "25"), ("de", "fünfundzwanzig", "25"), ("nl", "vijfentwintig", "25")];
            for (code, phrase, digits) in nums {
                for (pre, post) in frames {
                    let (c, text, want) = (code.to_string(), format!("{}{}{}", pre, phrase, post), format!("{}{}{}", pre, digits, post));
                    out.push(Case {
                        descr: serde_json::json!({"mode":"ident","lang":code,"text":text}),
                        run: guard(move || {
                            let r = replace_numbers_in_text(&text, &lang(&c), 0.0);
                            if r != want {
                                Some(format!("{:?} -> {:?}, expected {:?}", text, r, want))
                            } else {
                                None
                            }
                        }),
                    });
                }
            }
        }
        // C02 on streams: every input token is kept, or handed to Replace::replace, exactly once and in order
        "stream" => {
            for (code, phrase) in streams() {
                for th in [0.0f64, 10.0] {
                    let (c, p) = (code.to_string(), phrase.replace(['|', '!'], ""));
                    out.push(Case {
                        descr: serde_json::json!({"mode":"stream","lang":code,"tokens":phrase,"threshold":th}),
                        run: guard(move || {
                            let l = lang(&c);
                            let input: Vec<Prov> = p.split_whitespace().map(|w| Prov { text: w.to_string(), lower: w.to_lowercase(), src: vec![w.to_string()] }).collect();
                            let words: Vec<String> = input.iter().map(|t| t.text.clone()).collect();
                            let occ = find_numbers(input.iter(), &l, th);
                            let outv = replace_numbers_in_stream(input, &l, th);
                            let handed: Vec<String> = outv.iter().flat_map(|t| t.src.clone()).collect();
                            if handed != words {
                                return Some(format!("input words {:?} but the output tokens account for {:?}", words, handed));
                            }
                            // reference splice from the occurrences
                            let mut want: Vec<String> = Vec::new();
                            let mut i = 0;
                            for o in &occ {
                                while i < o.start { want.push(words[i].clone()); i += 1; }
                                want.push(o.text.clone());
                                i = o.end;
                            }
                            while i < words.len() { want.push(words[i].clone()); i += 1; }
                            let got: Vec<String> = outv.iter().map(|t| t.text.clone()).collect();
                            if got != want { Some(format!("output texts {:?}, expected {:?}", got, want)) } else { None }
                        }),
                    });
                }
            }
        }
        // C05: integer + separator + fraction -> one decimal with every fractional digit kept, and its value
        "dec" => {
            let d = [
                ("en", "one hundred twenty point zero five", "120.05", 120.05), ("en", "one point zero zero five", "1.005", 1.005),
                ("en", "three point one four", "3.14", 3.14), ("fr", "cent vingt virgule zéro cinq", "120,05", 120.05),
                ("fr", "un virgule zéro zéro cinq", "1,005", 1.005), ("fr", "trois virgule quatorze", "3,14", 3.14),
                ("es", "ciento veinte coma cero cinco", "120,05", 120.05), ("es", "tres coma catorce", "3,14", 3.14),
                ("pt", "cento e vinte vírgula zero cinco", "120,05", 120.05), ("pt", "três vírgula catorze", "3,14", 3.14),
                ("it", "centoventi virgola zero cinque", "120,05", 120.05), ("it", "tre virgola quattordici", "3,14", 3.14),
                ("de", "hundertzwanzig komma null fünf", "120,05", 120.05), ("de", "drei komma eins vier", "3,14", 3.14),
                ("nl", "honderdtwintig komma nul vijf", "120,05", 120.05), ("nl", "drie komma veertien", "3,14", 3.14),
            ];
            for (code, phrase, text, value) in d {
                let (c, p, t) = (code.to_string(), phrase.to_string(), text.to_string());
                out.push(Case {
                    descr: serde_json::json!({"mode":"dec","lang":code,"text":phrase}),
                    run: guard(move || {
                        let l = lang(&c);
                        let r = replace_numbers_in_text(&p, &l, 0.0);
                        if r != t {
                            return Some(format!("{:?} -> {:?}, expected {:?}", p, r, t));
                        }
                        let o = find_numbers(toks(&p).into_iter(), &l, 0.0);
                        if o.len() != 1 || o[0].text != t || (o[0].value - value).abs() > 1e-9 {
                            return Some(format!("occurrences of {:?}: {:?}, expected one with text {:?} and value {}", p, occs(&o), t, value));
                        }
                        None
                    }),
                });
            }
        }
        // C06: every occurrence is well formed (spans inside the stream, increasing, disjoint; value is the reading of the text)
        // C15: the lazy iterator and the batch function agree; C07: the validator agrees with the scanner
        "wf" | "iter" | "consist" | "thr" => {
            for (code, phrase) in streams() {
                for th in [0.0f64, 10.0, 1000.0] {
                    let (c, p, m) = (code.to_string(), phrase.to_string(), mode.to_string());
                    out.push(Case {
                        descr: serde_json::json!({"mode":mode,"lang":code,"tokens":phrase,"threshold":th}),
                        run: guard(move || {
                            let l = lang(&c);
                            let ts = toks(&p);
                            let batch = find_numbers(ts.clone().into_iter(), &l, th);
                            match m.as_str() {
                                "wf" => {
                                    // the lazy iterator delivers well-formed spans too (same order, nothing twice)
                                    let mut lazy_prev = 0usize;
                                    let mut it = find_numbers_iter(ts.clone().into_iter(), &l, th);
                                    let mut n = 0usize;
                                    while let Some(o) = it.next() {
                                        if !(o.start < o.end && o.end <= ts.len() && (n == 0 || o.start >= lazy_prev)) {
                                            return Some(format!("find_numbers_iter: span {:?} is not inside the stream and after the previous one (which ended at {})", (o.start, o.end, &o.text), lazy_prev));
                                        }
                                        lazy_prev = o.end;
                                        n += 1;
                                        if n > ts.len() + 1 { return Some("find_numbers_iter yields more occurrences than tokens".to_string()); }
                                    }
                                    let mut prev_end = 0usize;
                                    for (k, o) in batch.iter().enumerate() {
                                        if !(o.start < o.end && o.end <= ts.len() && (k == 0 || o.start >= prev_end)) {
                                            return Some(format!("spans are not inside the stream, increasing and disjoint: {:?}", occs(&batch)));
                                        }
                                        prev_end = o.end;
                                        // a Spanish fraction is rendered "1/n" and its value is 1/n
                                        if let Some(den) = o.text.strip_prefix("1/") {
                                            let d: f64 = den.parse().unwrap_or(f64::NAN);
                                            if !((o.value - 1.0 / d).abs() < 1e-12) || o.is_ordinal {
                                                return Some(format!("occurrence {:?} is not self-consistent (a fraction 1/n has the value 1/n)", occs(&batch)[k]));
                                            }
                                            continue;
                                        }
                                        let digits: String = o.text.chars().take_while(|ch| ch.is_ascii_digit() || *ch == ',' || *ch == '.').collect();
                                        let marker = &o.text[digits.len()..];
                                        let val: f64 = digits.trim_end_matches(['.', ',']).replace(',', ".").parse().unwrap_or(f64::NAN);
                                        // the German marker is "."
                                        let (val, is_ord) = if digits.ends_with('.') && marker.is_empty() { (val, true) } else { (val, !marker.is_empty()) };
                                        if !(val == o.value) || is_ord != o.is_ordinal {
                                            return Some(format!("occurrence {:?} is not self-consistent (text / value / is_ordinal)", occs(&batch)[k]));
                                        }
                                    }
                                    None
                                }
                                "iter" => {
                                    let mut it = find_numbers_iter(ts.clone().into_iter(), &l, th);
                                    let mut lazy = Vec::new();
                                    while let Some(o) = it.next() {
                                        lazy.push(o);
                                    }
                                    if occs(&lazy) != occs(&batch) {
                                        return Some(format!("lazy {:?} != batch {:?}", occs(&lazy), occs(&batch)));
                                    }
                                    // tokens that keep the trait's default hints behave as tokens that declare "no pause, is a number part"
                                    if ts.iter().all(|t| !t.nan && !t.pause) {
                                        let plain: Vec<Plain> = ts.iter().map(|t| Plain { text: t.text.clone(), lower: t.lower.clone() }).collect();
                                        let dflt = find_numbers(plain.into_iter(), &l, th);
                                        if occs(&dflt) != occs(&batch) {
                                            return Some(format!("default hints {:?} != explicit no-hint tokens {:?}", occs(&dflt), occs(&batch)));
                                        }
                                    }
                                    None
                                }
                                "consist" => {
                                    for o in &batch {
                                        // the validator has no decimal grammar: decimal occurrences are outside this comparison
                                        if o.text.contains(',') || (o.text.contains('.') && !o.text.ends_with('.')) {
                                            continue;
                                        }
                                        let words: Vec<&str> = ts[o.start..o.end].iter().map(|t| t.text.as_str()).collect();
                                        match text2digits(&words.join(" "), &l) {
                                            Ok(d) if d == o.text => {}
                                            other => return Some(format!("scanner found {:?} over {:?} but the validator says {:?}", o.text, words, other)),
                                        }
                                    }
                                    if th == 0.0 {
                                        for (i, t) in ts.iter().enumerate() {
                                            let covered = batch.iter().any(|o| o.start <= i && i < o.end);
                                            if !covered && !t.nan && text2digits(&t.text, &l).is_ok() {
                                                return Some(format!("word #{} {:?} is a number on its own but was left out at threshold 0: {:?}", i, t.text, occs(&batch)));
                                            }
                                        }
                                    }
                                    None
                                }
                                _ => {
                                    // thr: what is found at a threshold is found at threshold 0 too, and only small lone numbers disappear
                                    let all = find_numbers(ts.clone().into_iter(), &l, 0.0);
                                    for o in &batch {
                                        if !all.iter().any(|a| a.start == o.start && a.end == o.end && a.text == o.text) {
                                            return Some(format!("{:?} found at threshold {} but not at threshold 0: {:?}", (o.start, o.end, &o.text), th, occs(&all)));
                                        }
                                    }
                                    for a in &all {
                                        let kept = batch.iter().any(|o| o.start == a.start && o.end == a.end);
                                        let digits = a.text.chars().filter(|ch| ch.is_ascii_digit()).count();
                                        if !kept && !(a.value < th && (digits == 1 || a.is_ordinal)) {
                                            return Some(format!("{:?} is hidden at threshold {} although it is not a small lone number", (a.start, a.end, &a.text), th));
                                        }
                                    }
                                    None
                                }
                            }
                        }),
                    });
                }
            }
            if mode == "wf" {
                // the text keeps every digit, also beyond 2^53 where the f64 value cannot
                for (code, words, want, ord) in [("de", "neuntausendacht billion und eins", "9008000000000001", false), ("de", "neuntausendacht billion und erste", "9008000000000001.", true)] {
                    let (c, ws, w) = (code.to_string(), words.to_string(), want.to_string());
                    out.push(Case {
                        descr: serde_json::json!({"mode":"wf","lang":code,"tokens":words,"exact":true}),
                        run: guard(move || {
                            let r = find_numbers(toks(&ws).into_iter(), &lang(&c), 0.0);
                            if r.len() != 1 || r[0].text != w || r[0].is_ordinal != ord { Some(format!("{:?}: {:?}, expected the one occurrence {:?}", ws, occs(&r), w)) } else { None }
                        }),
                    });
                }
            }
            if mode == "thr" {
                // the property's own characterisation on systematic sequences: 2 or 3 numbers (small / large, cardinal / ordinal) with a
                // comma, nothing, an ordinary word or a period between them: a number recognised at threshold 0 is reported at
                // threshold 10 exactly when it is not small or has a neighbour of its kind (commas ignored, word and period break)
                let items: [(&str, [&str; 6]); 2] = [("en", ["two", "five", "first", "third", "twenty", "thirtieth"]), ("fr", ["deux", "cinq", "premier", "troisième", "vingt", "trentième"])];
                // "800": a token of digits is not a word, it does not isolate its neighbours any more than a comma does
                let seps = [",", "", "pomme", ".", "800"];
                for (code, its) in items {
                    let mut seqs: Vec<Vec<String>> = Vec::new();
                    for a in its { for s1 in seps { for b in its {
                        let mut v = vec![a.to_string()]; if !s1.is_empty() { v.push(s1.to_string()); } v.push(b.to_string());
                        seqs.push(v.clone());
                        for s2 in seps { for c in its {
                            let mut w = v.clone(); if !s2.is_empty() { w.push(s2.to_string()); } w.push(c.to_string());
                            seqs.push(w);
                        } }
                    } } }
                    for sq in seqs {
                        let c = code.to_string();
                        out.push(Case {
                            descr: serde_json::json!({"mode":"thr","lang":code,"tokens":sq.join(" "),"threshold":10.0}),
                            run: guard(move || {
                                let l = lang(&c);
                                let ts: Vec<Tok> = sq.iter().map(|w| Tok::w(w)).collect();
                                let all = find_numbers(ts.clone().into_iter(), &l, 0.0);
                                let at = find_numbers(ts.clone().into_iter(), &l, 10.0);
                                let breaker = |a: usize, b: usize| ts[a..b].iter().any(|t| t.text == "pomme" || t.text == ".");
                                for (k, o) in all.iter().enumerate() {
                                    let digits = o.text.chars().filter(|ch| ch.is_ascii_digit()).count();
                                    let small = o.value < 10.0 && (digits == 1 || o.is_ordinal);
                                    let left = k > 0 && all[k - 1].is_ordinal == o.is_ordinal && !breaker(all[k - 1].end, o.start);
                                    let right = k + 1 < all.len() && all[k + 1].is_ordinal == o.is_ordinal && !breaker(o.end, all[k + 1].start);
                                    let want = !small || left || right;
                                    let got = at.iter().any(|x| x.start == o.start && x.end == o.end && x.text == o.text);
                                    if want != got {
                                        return Some(format!("tokens {:?}: {:?} is {} at threshold 10 (recognised at threshold 0: {:?}; reported at 10: {:?}); it is {}small and has {} neighbour of its kind",
                                            sq, (o.start, o.end, &o.text), if got { "reported" } else { "left in words" }, occs(&all), occs(&at), if small { "" } else { "not " }, if left || right { "a" } else { "no" }));
                                    }
                                }
                                if at.len() > all.len() { return Some(format!("tokens {:?}: more numbers at threshold 10 than at threshold 0", sq)); }
                                None
                            }),
                        });
                    }
                }
                // every single-word entry of each language's INSIGNIFICANT set (read from the repository's vocabulary files as they are now)
                // between two small numbers: both are reported at threshold 10 (a linking word does not isolate); an ordinary word does
                let smalls: [(&str, &str, &str, &str); 7] = [("en", "two", "five", "dog"), ("fr", "deux", "cinq", "chien"), ("es", "dos", "cinco", "perro"), ("pt", "dois", "cinco", "cão"),
                    ("it", "due", "cinque", "cane"), ("de", "zwei", "fünf", "hund"), ("nl", "twee", "vijf", "hond")];
                for (code, a, b, plain) in smalls {
                    let mut words: Vec<String> = Vec::new();
                    if let Ok(text) = std::fs::read_to_string(format!("{}/src/lang/{}/vocabulary.rs", repo_dir(), code)) {
                        if let Some(pos) = text.find("INSIGNIFICANT") {
                            let body = &text[pos..];
                            let end = body.find("};").unwrap_or(body.len());
                            let mut rest = &body[..end];
                            while let Some(q) = rest.find('"') {
                                let tail = &rest[q + 1..];
                                if let Some(e) = tail.find('"') {
                                    let w = &tail[..e];
                                    if !w.is_empty() && !w.contains(' ') { words.push(w.to_string()); }
                                    rest = &tail[e + 1..];
                                } else { break; }
                            }
                        }
                    }
                    words.push(plain.to_string());
                    for w in words {
                        let (c, a, b, is_plain) = (code.to_string(), a.to_string(), b.to_string(), w == plain);
                        out.push(Case {
                            descr: serde_json::json!({"mode":"thr","lang":code,"link":w}),
                            run: guard(move || {
                                let l = lang(&c);
                                // a word that is itself (part of) a number in this language says nothing about linking
                                if text2digits(&w, &l).is_ok() || text2digits(&format!("{} {} {}", a, w, b), &l).is_ok() { return None; }
                                let ts = vec![Tok::w(&a), Tok::w(","), Tok::w(&w), Tok::w(","), Tok::w(&b)];
                                let all = find_numbers(ts.clone().into_iter(), &l, 0.0);
                                if all.len() != 2 || all[0].end != 1 || all[1].start != 4 { return None; }
                                let at = find_numbers(ts.into_iter(), &l, 10.0);
                                if is_plain && !at.is_empty() { return Some(format!("{:?}, {:?}, {:?}: an ordinary word isolates the two small numbers, but {:?} are reported at threshold 10", a, w, b, occs(&at))); }
                                if !is_plain && at.len() != 2 { return Some(format!("{:?}, {:?}, {:?}: {:?} is a linking word of this language, the two small numbers are not isolated, but {:?} are reported at threshold 10", a, w, b, w, occs(&at))); }
                                None
                            }),
                        });
                    }
                }
                // linking words keep small numbers together whatever their case
                for (code, text, want) in [("en", "ONE AND TWO", "1 AND 2"), ("en", "one Plus two", "1 Plus 2"), ("fr", "UN ET DEUX", "1 ET 2")] {
                    let (c, t, w) = (code.to_string(), text.to_string(), want.to_string());
                    out.push(Case {
                        descr: serde_json::json!({"mode":"thr","lang":code,"text":text}),
                        run: guard(move || {
                            let r = replace_numbers_in_text(&t, &lang(&c), 10.0);
                            if r != w { Some(format!("{:?} -> {:?}, expected {:?} (numbers linked by a linking word are not isolated)", t, r, w)) } else { None }
                        }),
                    });
                }
            }
        }
        // C18: "o" reads as zero exactly when a nearest neighbour (skipping whitespace only) is a number word
        "orule" => {
            let t = [
                ("two o five", "2 0 5"), ("o eight", "0 8"), ("nine o", "9 0"), ("o, eight", "o, 8"), ("o! twelve", "o! 12"), ("one two three, o, a b", "1 2 3, o, a b"),
                ("dial o six please", "dial 0 6 please"), ("o dear", "o dear"), ("my o my", "my o my"), ("five\u{a0}o", "5\u{a0}0"), ("room two o five. Then dial o six", "room 2 0 5. Then dial 0 6"),
                // 'o' after a word the scanner swallows while a number is pending ("and", "point"): the neighbour is not a number word
                ("twenty and o boy", "20 and o boy"), ("thirty and o", "30 and o"), ("one point o x", "1 point o x"), ("two hundred and o, dear", "200 and o, dear"),
                ("twenty and o eight", "20 and 0 8"), ("sixty and o. Five", "60 and o. 5"),
            ];
            for (text, want) in t {
                let (t, w) = (text.to_string(), want.to_string());
                out.push(Case {
                    descr: serde_json::json!({"mode":"orule","lang":"en","text":text}),
                    run: guard(move || {
                        let r = replace_numbers_in_text(&t, &lang("en"), 0.0);
                        let norm = |s: &str| s.split_whitespace().collect::<Vec<_>>().join("");
                        // digits may be glued ("205") or spaced ("2 0 5"): compare up to spaces
                        if norm(&r) != norm(&w) { Some(format!("{:?} -> {:?}, expected {:?} up to spacing", t, r, w)) } else { None }
                    }),
                });
            }
                    // systematic neighbourhoods: (left context, is the nearest non-whitespace token before 'o' a number word) x (right context, same)
            // x three kinds of whitespace; a separator run such as " - " or ", " is a punctuation neighbour, not whitespace
            let lefts: [(&str, bool, &str); 10] = [("", false, ""), ("eight ", true, "8 "), ("dear ", false, "dear "), (", ", false, ", "), ("- ", false, "- "), ("! ", false, "! "),
                ("eight, ", false, "8, "), ("eight - ", false, "8 - "), ("dear - ", false, "dear - "), ("eight. ", false, "8. ")];
            let rights: [(&str, bool, &str); 9] = [("", false, ""), (" eight", true, " 8"), (" dear", false, " dear"), (", eight", false, ", 8"), (" - eight", false, " - 8"),
                ("! eight", false, "! 8"), (", dear", false, ", dear"), (" - dear", false, " - dear"), (" ( eight", false, " ( 8")];
            for ws in [" ", "\u{a0}", "\t"] {
                for (l, ln, lo) in lefts {
                    for (r, rn, ro) in rights {
                        let text = format!("{}o{}", l, r).replace(' ', ws);
                        let want = format!("{}{}{}", lo, if ln || rn { "0" } else { "o" }, ro).replace(' ', ws);
                        let (t, w) = (text.clone(), want);
                        out.push(Case {
                            descr: serde_json::json!({"mode":"orule","lang":"en","text":text}),
                            run: guard(move || {
                                let r = replace_numbers_in_text(&t, &lang("en"), 0.0);
                                let norm = |s: &str| s.split_whitespace().collect::<Vec<_>>().join("");
                                if norm(&r) != norm(&w) { Some(format!("{:?} -> {:?}, expected {:?} up to spacing", t, r, w)) } else { None }
                            }),
                        });
                    }
                }
            }
        }
        // C11: only the non-ASCII letters of a number word are capitalised
        "ncase" => {
            // a linking word keeps two small numbers together whatever its case, also when the token carries the not-a-number hint
            // (the scanner then takes the early path) and whatever the case of the number words themselves
            let smalls: [(&str, &str, &str); 7] = [("en", "two", "five"), ("fr", "deux", "cinq"), ("es", "dos", "cinco"), ("pt", "dois", "cinco"), ("it", "due", "cinque"), ("de", "zwei", "fünf"), ("nl", "twee", "vijf")];
            for (code, a, b) in smalls {
                for w in linking_words(code) {
                    let (c, a, b) = (code.to_string(), a.to_string(), b.to_string());
                    out.push(Case {
                        descr: serde_json::json!({"mode":"ncase","lang":code,"link":w}),
                        run: guard(move || {
                            let l = lang(&c);
                            let up = w.to_uppercase();
                            let cap: String = { let mut ch = w.chars(); match ch.next() { Some(f) => f.to_uppercase().collect::<String>() + ch.as_str(), None => String::new() } };
                            for flagged in [false, true] {
                                let mk = |word: &str, first: &str, second: &str| -> Vec<Tok> {
                                    let mut t = Tok::w(word); t.nan = flagged;
                                    vec![Tok::w(first), t, Tok::w(second)]
                                };
                                let base = occs(&find_numbers(mk(&w, &a, &b).into_iter(), &l, 10.0));
                                for variant in [up.clone(), cap.clone()] {
                                    if variant.to_lowercase() != w { continue; }
                                    for (x, y) in [(a.clone(), b.clone()), (a.to_uppercase(), b.to_uppercase())] {
                                        if x.to_lowercase() != a || y.to_lowercase() != b { continue; }
                                        let got = occs(&find_numbers(mk(&variant, &x, &y).into_iter(), &l, 10.0));
                                        if got != base {
                                            return Some(format!("tokens [{:?}, {:?}{}, {:?}] at threshold 10: {:?}, but with the word in lower case: {:?}", x, variant, if flagged { " (flagged not-a-number)" } else { "" }, y, got, base));
                                        }
                                    }
                                }
                            }
                            None
                        }),
                    });
                }
            }
            for (code, text) in [("fr", "zéro"), ("fr", "vingt et unième"), ("es", "veintidós"), ("es", "dieciséis"), ("pt", "três"), ("it", "ventitré"),
                                 ("de", "fünf"), ("de", "zwölf"), ("de", "dreißig und fünf"), ("nl", "één"), ("nl", "drieëntwintig")] {
                let (c, t) = (code.to_string(), text.to_string());
                out.push(Case {
                    descr: serde_json::json!({"mode":"ncase","lang":code,"text":text}),
                    run: guard(move || {
                        let l = lang(&c);
                        let v: String = t.chars().map(|ch| if ch.is_ascii() { ch.to_string() } else { ch.to_uppercase().collect::<String>() }).collect();
                        if v.to_lowercase() != t {
                            return None;
                        }
                        let (a, b) = (replace_numbers_in_text(&t, &l, 0.0), replace_numbers_in_text(&v, &l, 0.0));
                        if a.to_lowercase() != b.to_lowercase() { return Some(format!("{:?} -> {:?} but {:?} -> {:?}", t, a, v, b)); }
                        // the validator too, also with everything in capitals
                        let up = t.to_uppercase();
                        for variant in [v.clone(), up] {
                            if variant.to_lowercase() != t { continue; }
                            let (x, y) = (text2digits(&t, &l), text2digits(&variant, &l));
                            if format!("{:?}", x).to_lowercase() != format!("{:?}", y).to_lowercase() {
                                return Some(format!("text2digits({:?}) = {:?} but text2digits({:?}) = {:?}", t, x, variant, y));
                            }
                        }
                        None
                    }),
                });
            }
        }
        // C16: a zero (English also "o") said after a non-zero number starts a new numeral; zeros before a number stay in front of it
        "ozero" => {
            let t = [("en", "twenty o", "20 0"), ("en", "five o", "5 0"), ("en", "room two hundred o please", "room 200 0 please"), ("en", "sixty o six", "60 06"), ("en", "o eight", "08"),
                     ("en", "twenty zero", "20 0"), ("en", "five zero zero", "5 00"), ("en", "zero", "0"), ("fr", "vingt zéro", "20 0"), ("fr", "cinq zéro zéro", "5 00"),
                     ("es", "veinte cero", "20 0"), ("pt", "vinte zero", "20 0"), ("it", "venti zero", "20 0"), ("de", "zwanzig null", "20 0"), ("nl", "twintig nul", "20 0")];
            for (code, text, want) in t {
                let (c, t, w) = (code.to_string(), text.to_string(), want.to_string());
                out.push(Case {
                    descr: serde_json::json!({"mode":"ozero","lang":code,"text":text}),
                    run: guard(move || {
                        let r = replace_numbers_in_text(&t, &lang(&c), 0.0);
                        if r != w { Some(format!("{:?} -> {:?}, expected {:?}", t, r, w)) } else { None }
                    }),
                });
            }
        }
        // C10: punctuation between two spelled numbers that could combine keeps them apart
        "punct" => {
            let pairs: [(&str, &str, &str, &str, &str); 14] = [
                ("en", "one hundred", "100", "twenty", "20"), ("en", "sixty", "60", "five", "5"),
                ("fr", "cent", "100", "vingt", "20"), ("fr", "trente", "30", "deux", "2"),
                ("es", "mil", "1000", "veinte", "20"), ("es", "doscientos", "200", "tres", "3"),
                ("pt", "mil", "1000", "vinte", "20"), ("pt", "duzentos", "200", "três", "3"),
                ("it", "cento", "100", "venti", "20"), ("it", "mille", "1000", "tre", "3"),
                ("de", "hundert", "100", "zwanzig", "20"), ("de", "tausend", "1000", "drei", "3"),
                ("nl", "honderd", "100", "twintig", "20"), ("nl", "duizend", "1000", "drie", "3")];
            // a hyphen glued to a word belongs to that word for the tokenizer, so only the spaced dash is punctuation here
            let puncts = [", ", "; ", ": ", "! ", "? ", " - ", " – ", " / ", " ( ", ") ", " … ", " \" ", ",", ";"];
            for (code, a, da, b, db) in pairs {
                for p in puncts {
                    let (c, text, want) = (code.to_string(), format!("{}{}{}", a, p, b), format!("{}{}{}", da, p, db));
                    out.push(Case {
                        descr: serde_json::json!({"mode":"punct","lang":code,"text":text}),
                        run: guard(move || {
                            let r = replace_numbers_in_text(&text, &lang(&c), 0.0);
                            if r != want { Some(format!("{:?} -> {:?}, expected {:?}: punctuation between two numbers keeps them apart", text, r, want)) } else { None }
                        }),
                    });
                }
            }
        }
        // C13: facade == concrete type on every word of the grammar tables alone and on every ordered pair of them (plus function words)
        "facade" => {
            for code in LANGS {
                let voc = vocabulary(code);
                for (c, p) in streams() {
                    if c != code { continue }
                    let (c, p) = (c.to_string(), p.replace(['|', '!'], ""));
                    out.push(Case { descr: serde_json::json!({"mode":"facade","lang":c,"text":p}), run: guard(move || facade_by_code(&c, &p)) });
                }
                // article + ordinary word + each vocabulary word (+ ordinary word): the shapes the annotation hooks look at (French "neuf", English "o")
                let (art, plain) = match code { "en" => ("the", "dog"), "fr" => ("un", "chien"), "de" => ("ein", "hund"), "it" => ("un", "cane"), "es" => ("un", "perro"), "nl" => ("een", "hond"), _ => ("um", "cão") };
                for w in voc.clone() {
                    let c = code.to_string();
                    let phrases = vec![format!("{} {} {}", art, plain, w), format!("{} {} {} {}", art, plain, w, plain), format!("{} {} {}", plain, w, plain)];
                    out.push(Case {
                        descr: serde_json::json!({"mode":"facade","lang":code,"in_context":w}),
                        run: guard(move || { for p in &phrases { if let Some(m) = facade_by_code(&c, p) { return Some(m); } } None }),
                    });
                }
                for w1 in voc.clone() {
                    let (c, voc2) = (code.to_string(), voc.clone());
                    out.push(Case {
                        descr: serde_json::json!({"mode":"facade","lang":code,"first_word":w1}),
                        run: guard(move || {
                            if let Some(m) = facade_by_code(&c, &w1) { return Some(m); }
                            for w2 in &voc2 {
                                if let Some(m) = facade_by_code(&c, &format!("{} {}", w1, w2)) { return Some(m); }
                            }
                            None
                        }),
                    });
                }
            }
        }
        _ => {}
    }
    out
}

fn main() {
    std::panic::set_hook(Box::new(|_| {}));
    let args: Vec<String> = std::env::args().collect();
    let mode = args.get(1).cloned().unwrap_or_default();
    if mode == "--replay" {
        let v: serde_json::Value = serde_json::from_str(&args[2]).expect("json");
        let m = v["case"]["mode"].as_str().unwrap_or("").to_string();
        for c in cases(&m) {
            if c.descr == v["case"] {
                match (c.run)() {
                    Some(msg) => {
                        println!("REPRODUCED: {}", msg);
                        std::process::exit(1);
                    }
                    None => {
                        println!("not reproduced: the case holds");
                        std::process::exit(0);
                    }
                }
            }
        }
        println!("case not found");
        std::process::exit(2);
    }
    if mode == "pairs" {
        // standin pairs <file>: lines `lang<TAB>phrase<TAB>r1|r2`: the phrase (two numbers below 100, optionally joined by the conjunction)
        // must be rewritten as one of the accepted renderings (both numbers in order, or the one number spelled by exactly those words)
        let text = std::fs::read_to_string(args.get(2).cloned().unwrap_or_default()).unwrap_or_default();
        let mut n = 0usize;
        for line in text.lines() {
            let f: Vec<&str> = line.split('\t').collect();
            if f.len() != 3 { continue; }
            n += 1;
            let l = lang(f[0]);
            let got = catch_unwind(AssertUnwindSafe(|| replace_numbers_in_text(f[1], &l, 0.0))).ok();
            let accepted: Vec<&str> = f[2].split('|').collect();
            let g = got.clone().unwrap_or_default();
            if !accepted.iter().any(|a| *a == g) {
                println!("{}", serde_json::json!({"kind":"call","fn":"replace","lang":f[0],"text":f[1],"threshold":0.0,"expect":{"one_of":accepted},
                    "what":format!("{:?} rewritten as {:?}, accepted: {:?}", f[1], got, accepted), "cases": n}));
                return;
            }
        }
        println!("{}", serde_json::json!({"kind":"none","cases":n}));
        return;
    }
    if mode == "phrases" {
        // standin phrases <file> [zeros]: every line `lang<TAB>phrase<TAB>digits` must validate to exactly its digits, and be rewritten as
        // one number; with `zeros`, also with one and two leading zero words (C16)
        let file = args.get(2).cloned().unwrap_or_default();
        let zeros = args.get(3).map(|x| x == "zeros").unwrap_or(false);
        let zw = |c: &str| match c { "fr" => "zéro", "es" => "cero", "de" => "null", "nl" => "nul", _ => "zero" };
        let text = std::fs::read_to_string(&file).unwrap_or_default();
        let mut n = 0usize;
        for line in text.lines() {
            let f: Vec<&str> = line.split('\t').collect();
            if f.len() != 3 { continue; }
            let (code, phrase, digits) = (f[0], f[1], f[2]);
            let l = lang(code);
            let ks: &[usize] = if zeros && digits != "0" { &[1, 2] } else { &[0] };
            for &k in ks {
                n += 1;
                let p = format!("{}{}", format!("{} ", zw(code)).repeat(k), phrase);
                let want = format!("{}{}", "0".repeat(k), digits);
                let got = catch_unwind(AssertUnwindSafe(|| text2digits(&p, &l)));
                let ok = matches!(&got, Ok(Ok(d)) if *d == want);
                if !ok {
                    println!("{}", serde_json::json!({"kind":"call","fn":"text2digits","lang":code,"text":p,"expect":{"equals":format!("Ok({:?})", want)},
                        "what":format!("text2digits({:?}) = {:?}, expected Ok({:?})", p, got.ok(), want), "cases": n}));
                    return;
                }
                if k == 0 {
                    let sentence = format!("xyzzy {} xyzzy", phrase);
                    let r = catch_unwind(AssertUnwindSafe(|| replace_numbers_in_text(&sentence, &l, 0.0))).ok();
                    let wants = format!("xyzzy {} xyzzy", want);
                    if r.as_deref() != Some(wants.as_str()) {
                        println!("{}", serde_json::json!({"kind":"call","fn":"replace","lang":code,"text":sentence,"threshold":0.0,"expect":{"equals":wants},
                            "what":format!("rewritten as {:?}, expected {:?}", r, wants), "cases": n}));
                        return;
                    }
                }
            }
        }
        println!("{}", serde_json::json!({"kind":"none","cases":n}));
        return;
    }
    let cs = cases(&mode);
    let n = cs.len();
    for c in cs {
        if let Some(msg) = (c.run)() {
            println!("{}", serde_json::json!({"kind":"standin","case":c.descr,"what":msg,"cases":n}));
            return;
        }
    }
    println!("{}", serde_json::json!({"kind":"none","cases":n}));
}
