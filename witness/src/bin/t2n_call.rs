//! Replays one recorded call on the REAL crate and compares with the recorded expectation.
//! input (argv[1]): {"kind":"call","fn":"text2digits"|"replace"|"find"|"lookup","lang":"en","text":"..","threshold":0.0,
//!                   "expect":{"no_panic":true,"equals":"..","is_ok":true,"is_some":true,"not_equals":".."}}
//! exit 1 = the expectation is violated (REPRODUCED), exit 0 = it holds.
use std::panic::{catch_unwind, AssertUnwindSafe};
use text2num::{get_interpreter_for, replace_numbers_in_text, text2digits, Language};

fn lang(code: &str) -> Language {
    match code {
        "en" => Language::english(),
        "fr" => Language::french(),
        "de" => Language::german(),
        "it" => Language::italian(),
        "es" => Language::spanish(),
        "nl" => Language::dutch(),
        "pt" => Language::portuguese(),
        _ => panic!("unknown language"),
    }
}

fn main() {
    std::panic::set_hook(Box::new(|_| {}));
    let arg = std::env::args().nth(1).expect("json argument");
    let v: serde_json::Value = serde_json::from_str(&arg).expect("json");
    let f = v["fn"].as_str().unwrap_or("");
    let text = v["text"].as_str().unwrap_or("").to_string();
    let code = v["lang"].as_str().unwrap_or("en").to_string();
    let th = v["threshold"].as_f64().unwrap_or(0.0);
    let res: Result<String, ()> = catch_unwind(AssertUnwindSafe(|| match f {
        "text2digits" => match text2digits(&text, &lang(&code)) {
            Ok(s) => format!("Ok({:?})", s),
            Err(e) => format!("Err({:?})", e),
        },
        "replace" => replace_numbers_in_text(&text, &lang(&code), th),
        "lookup" => match get_interpreter_for(&text) {
            Some(_) => "Some".to_string(),
            None => "None".to_string(),
        },
        _ => "unknown fn".to_string(),
    }))
    .map_err(|_| ());
    let e = &v["expect"];
    let mut bad = Vec::new();
    match &res {
        Err(()) => {
            println!("call panicked");
            bad.push("panicked".to_string());
        }
        Ok(s) => {
            println!("result: {}", s);
            if let Some(x) = e["equals"].as_str() {
                if s != x {
                    bad.push(format!("expected {:?}", x));
                }
            }
            if let Some(xs) = e["one_of"].as_array() {
                if !xs.iter().any(|x| x.as_str() == Some(s.as_str())) {
                    bad.push(format!("expected one of {:?}", xs));
                }
            }
            if let Some(x) = e["starts_with"].as_str() {
                if !s.starts_with(x) {
                    bad.push(format!("expected a result starting with {:?}", x));
                }
            }
            if let Some(x) = e["not_equals"].as_str() {
                if s == x {
                    bad.push(format!("must differ from {:?}", x));
                }
            }
            if let Some(x) = e["is_ok"].as_bool() {
                if s.starts_with("Ok(") != x {
                    bad.push(format!("expected is_ok={}", x));
                }
            }
            if let Some(x) = e["is_some"].as_bool() {
                if (s == "Some") != x {
                    bad.push(format!("expected is_some={}", x));
                }
            }
        }
    }
    if bad.is_empty() {
        println!("not reproduced: expectation holds");
        std::process::exit(0);
    }
    println!("REPRODUCED: {}", bad.join("; "));
    std::process::exit(1);
}
