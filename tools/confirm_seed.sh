#!/bin/bash
# usage: tools/confirm_seed.sh <seed_out_dir> <name>
# Confirms a seeded change in a scratch worktree: demo passes without it, fails with it, suite passes with it.
# On success stores patch.diff, demo.rs, meta.json under /verif/seeded/<name>/ and removes the worktree.
set -u
SRC=$1; NAME=$2
WT=/tmp/confirm_$NAME
export CARGO_NET_OFFLINE=true CARGO_TARGET_DIR=/tmp/confirm_target
git -C /repo worktree remove --force $WT >/dev/null 2>&1; rm -rf $WT
git -C /repo worktree add -f $WT HEAD >/dev/null 2>&1 || { echo "worktree failed"; exit 9; }
mkdir -p $WT/tests; cp $SRC/demo.rs $WT/tests/demo.rs
cd $WT
cargo test --offline --test demo >/tmp/confirm_$NAME.base.log 2>&1; BASE=$?
git apply $SRC/patch.diff || { echo "PATCH DOES NOT APPLY"; cd /; git -C /repo worktree remove --force $WT; exit 9; }
cargo test --offline --test demo >/tmp/confirm_$NAME.mut.log 2>&1; MUT=$?
cargo test --offline --lib >/tmp/confirm_$NAME.lib.log 2>&1; LIB=$?
cargo test --offline --doc >/tmp/confirm_$NAME.doc.log 2>&1; DOC=$?
echo "demo_without_change_exit=$BASE demo_with_change_exit=$MUT lib_exit=$LIB doc_exit=$DOC"
grep -E "^test result" /tmp/confirm_$NAME.lib.log | head -1
cd /; git -C /repo worktree remove --force $WT; rm -rf $WT
if [ $BASE -eq 0 ] && [ $MUT -ne 0 ] && [ $LIB -eq 0 ] && [ $DOC -eq 0 ]; then
  mkdir -p /verif/seeded/$NAME
  cp $SRC/patch.diff $SRC/demo.rs /verif/seeded/$NAME/
  python3 - "$SRC" "$NAME" <<'PY'
import json,sys
src,name=sys.argv[1],sys.argv[2]
try: m=json.load(open(src+"/meta.json"))
except Exception: m={}
m["confirmed_by_me"]={"demo_passes_without_change":True,"demo_fails_with_change":True,"lib_and_doc_tests_pass_with_change":True,
  "commands":["git worktree add /tmp/confirm_%s HEAD"%name,"cargo test --offline --test demo (before and after git apply patch.diff)","cargo test --offline --lib","cargo test --offline --doc"]}
json.dump(m,open("/verif/seeded/%s/meta.json"%name,"w"),indent=1)
PY
  echo "CONFIRMED -> /verif/seeded/$NAME"
else
  echo "NOT CONFIRMED"
fi
