#!/bin/sh
# usage: tools/try_patch.sh <patch.diff> <ID> [<ID>...]   -- applies the patch to /repo, runs the checks, undoes it
P=$1; shift
cd /repo || exit 9
git apply "$P" || { echo "patch does not apply"; exit 9; }
cd /verif
for id in "$@"; do
  ./check $id quick; echo "  -> $id exit=$?"
done
git -C /repo checkout -- . 
