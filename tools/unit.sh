#!/bin/sh
# tools/unit.sh <unit>  : generate + verify one unit, print summary of failures (developer helper)
cd "$(dirname "$0")/.."
python3 - "$1" <<'PY'
import sys, json
sys.path.insert(0, 'vlib'); sys.path.insert(0, '.')
from vlib import run
r = run.analyse_unit(sys.argv[1])
print("status", r["status"], "verified", r.get("verified"), "errors", r.get("errors"), "time", r.get("time"))
for x in r.get("reasons", [])[:30]:
    print("REASON", str(x)[:600])
for o in r["obligations"]:
    if o["status"] != "discharged":
        print("FAIL", o["id"], o["props"], str(o.get("message", ""))[:300])
PY
