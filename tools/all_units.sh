#!/bin/sh
# developer helper: verify every unit in parallel, one summary line each
cd "$(dirname "$0")/.."
for u in $(ls specs/*.vspec | xargs -n1 basename | sed 's/.vspec//'); do
  ( tools/unit.sh $u > /tmp/unit_$u.out 2>&1; echo "$u: $(head -1 /tmp/unit_$u.out) fails=$(grep -c '^FAIL' /tmp/unit_$u.out)" ) &
done
wait
