#!/bin/sh
# every bounded stand-in search must find NOTHING on the unchanged tree (a hit here is a wrong oracle, i.e. a would-be false alarm)
cd "$(dirname "$0")/.."
python3 - <<'PY'
import sys, json
sys.path.insert(0, '.')
from vlib import extra
bad = 0
for pid in ["C%02d" % i for i in range(1, 19)]:
    w, ran = extra.standin(pid)
    print(pid, "HIT" if w else "clean", json.dumps(ran)[:200])
    if w:
        bad += 1
        print("   ", json.dumps(w, ensure_ascii=False)[:400])
sys.exit(1 if bad else 0)
PY
