#!/usr/bin/env python3
"""Independent spellers of cardinal numbers (standard spelling) for the seven languages, used ONLY by the bounded
composition search of the thorough tier (C01, C16): they print `lang<TAB>phrase<TAB>digits` lines for a stated set of n.
Written from the languages' grammar, not from /repo.  usage: spell.py <seed> [lang ...]"""
import random, sys


def groups(n):
    g = []
    while n:
        g.append(n % 1000)
        n //= 1000
    return g  # units, thousands, millions, milliards


# ------------------------------------------------------------------ English
EN1 = "zero one two three four five six seven eight nine ten eleven twelve thirteen fourteen fifteen sixteen seventeen eighteen nineteen".split()
EN10 = "_ _ twenty thirty forty fifty sixty seventy eighty ninety".split()


def en_999(n):
    w = []
    if n >= 100:
        w += [EN1[n // 100], "hundred"]
        n %= 100
    if n >= 20:
        w.append(EN10[n // 10] + ("-" + EN1[n % 10] if n % 10 else ""))
    elif n > 0:
        w.append(EN1[n])
    return w


def en(n):
    if n == 0:
        return "zero"
    w = []
    for k, name in ((3, "billion"), (2, "million"), (1, "thousand"), (0, None)):
        g = (n // 1000 ** k) % 1000
        if g:
            w += en_999(g) + ([name] if name else [])
    return " ".join(w)


# ------------------------------------------------------------------ French (traditional hyphenation)
FR1 = "zéro un deux trois quatre cinq six sept huit neuf dix onze douze treize quatorze quinze seize dix-sept dix-huit dix-neuf".split()
FR10 = {2: "vingt", 3: "trente", 4: "quarante", 5: "cinquante", 6: "soixante"}


def fr_99(n):
    if n < 20:
        return FR1[n]
    t, u = divmod(n, 10)
    if t in FR10:
        if u == 0:
            return FR10[t]
        if u == 1:
            return FR10[t] + " et un"
        return FR10[t] + "-" + FR1[u]
    if t == 7:
        return "soixante et onze" if u == 1 else "soixante-" + FR1[10 + u]
    if t == 8:
        return "quatre-vingts" if u == 0 else "quatre-vingt-" + FR1[u]
    return "quatre-vingt-" + FR1[10 + u]


def fr_999(n, plural_ok=True):
    w = []
    h, r = divmod(n, 100)
    if h == 1:
        w.append("cent")
    elif h > 1:
        w += [FR1[h], "cents" if (r == 0 and plural_ok) else "cent"]
    if r:
        s = fr_99(r)
        if not plural_ok and s == "quatre-vingts":
            s = "quatre-vingt"
        w.append(s)
    return w


def fr(n):
    if n == 0:
        return "zéro"
    w = []
    g = [(n // 1000 ** k) % 1000 for k in range(4)]
    if g[3]:
        w += fr_999(g[3]) + ["milliard" if g[3] == 1 else "milliards"]
    if g[2]:
        w += fr_999(g[2]) + ["million" if g[2] == 1 else "millions"]
    if g[1]:
        w += ([] if g[1] == 1 else fr_999(g[1], plural_ok=False)) + ["mille"]
    if g[0]:
        w += fr_999(g[0])
    return " ".join(w)


# ------------------------------------------------------------------ Spanish
ES1 = ("cero uno dos tres cuatro cinco seis siete ocho nueve diez once doce trece catorce quince dieciséis diecisiete dieciocho diecinueve "
       "veinte veintiuno veintidós veintitrés veinticuatro veinticinco veintiséis veintisiete veintiocho veintinueve").split()
ES10 = {3: "treinta", 4: "cuarenta", 5: "cincuenta", 6: "sesenta", 7: "setenta", 8: "ochenta", 9: "noventa"}
ES100 = {1: "ciento", 2: "doscientos", 3: "trescientos", 4: "cuatrocientos", 5: "quinientos", 6: "seiscientos", 7: "setecientos", 8: "ochocientos", 9: "novecientos"}


def es_999(n, apoc=False):
    """apoc: before mil / millones, uno -> un, veintiuno -> veintiún"""
    w = []
    h, r = divmod(n, 100)
    if n == 100:
        return ["cien"]
    if h:
        w.append(ES100[h])
    if r:
        if r < 30:
            s = ES1[r]
            if apoc and r == 1:
                s = "un"
            if apoc and r == 21:
                s = "veintiún"
        else:
            t, u = divmod(r, 10)
            s = ES10[t] + (" y " + ("un" if (apoc and u == 1) else ES1[u]) if u else "")
        w.append(s)
    return w


def es(n):
    if n == 0:
        return "cero"
    w = []
    hi, lo = divmod(n, 10 ** 6)     # millions (up to 999 999) and the rest
    if hi:
        if hi == 1:
            w += ["un", "millón"]
        else:
            th, r = divmod(hi, 1000)
            if th:
                w += ([] if th == 1 else es_999(th, True)) + ["mil"]
            if r:
                w += es_999(r, True)
            w.append("millones")
    th, r = divmod(lo, 1000)
    if th:
        w += ([] if th == 1 else es_999(th, True)) + ["mil"]
    if r:
        w += es_999(r)
    return " ".join(w)


# ------------------------------------------------------------------ Italian (glued compounds)
IT1 = "zero uno due tre quattro cinque sei sette otto nove dieci undici dodici tredici quattordici quindici sedici diciassette diciotto diciannove".split()
IT10 = {2: "venti", 3: "trenta", 4: "quaranta", 5: "cinquanta", 6: "sessanta", 7: "settanta", 8: "ottanta", 9: "novanta"}


def it_99(n):
    if n < 20:
        return IT1[n]
    t, u = divmod(n, 10)
    s = IT10[t]
    if u in (1, 8):
        s = s[:-1]
    if u == 3:
        return s + "tré"
    return s + (IT1[u] if u else "")


def it_999(n):
    h, r = divmod(n, 100)
    s = ""
    if h:
        s = ("" if h == 1 else IT1[h]) + "cento"
    if r:
        s += it_99(r)
    return s


def it(n):
    if n == 0:
        return "zero"
    g = [(n // 1000 ** k) % 1000 for k in range(4)]
    w = []
    if g[3]:
        w.append("un miliardo" if g[3] == 1 else it_999(g[3]) + " miliardi")
    if g[2]:
        w.append("un milione" if g[2] == 1 else it_999(g[2]) + " milioni")
    low = ""
    if g[1]:
        low += "mille" if g[1] == 1 else it_999(g[1]) + "mila"
    if g[0]:
        low += it_999(g[0])
    if low:
        w.append(low)
    return " ".join(w)


# ------------------------------------------------------------------ German (glued; numbers needing "eine" are left out: known finding)
DE1 = "null ein zwei drei vier fünf sechs sieben acht neun zehn elf zwölf dreizehn vierzehn fünfzehn sechzehn siebzehn achtzehn neunzehn".split()
DE10 = {2: "zwanzig", 3: "dreißig", 4: "vierzig", 5: "fünfzig", 6: "sechzig", 7: "siebzig", 8: "achtzig", 9: "neunzig"}


def de_99(n, final):
    if n == 1:
        return "eins" if final else "ein"
    if n < 20:
        return DE1[n]
    t, u = divmod(n, 10)
    return (DE1[u] + "und" if u else "") + DE10[t]


def de_999(n, final):
    h, r = divmod(n, 100)
    s = ""
    if h:
        s = DE1[h] + "hundert"
    if r:
        s += de_99(r, final)
    return s


def de(n):
    if n == 0:
        return "null"
    g = [(n // 1000 ** k) % 1000 for k in range(4)]
    if g[2] == 1 or g[3] == 1:
        return None     # "eine Million" / "eine Milliarde": known finding, not searched again
    w = []
    if g[3]:
        w.append(de_999(g[3], False) + " milliarden")
    if g[2]:
        w.append(de_999(g[2], False) + " millionen")
    low = ""
    if g[1]:
        low += de_999(g[1], False) + "tausend"
    if g[0]:
        low += de_999(g[0], True)
    if low:
        w.append(low)
    return " ".join(w)


# ------------------------------------------------------------------ Dutch
NL1 = "nul een twee drie vier vijf zes zeven acht negen tien elf twaalf dertien veertien vijftien zestien zeventien achttien negentien".split()
NL10 = {2: "twintig", 3: "dertig", 4: "veertig", 5: "vijftig", 6: "zestig", 7: "zeventig", 8: "tachtig", 9: "negentig"}


def nl_99(n):
    if n < 20:
        return NL1[n]
    t, u = divmod(n, 10)
    if not u:
        return NL10[t]
    return NL1[u] + ("ën" if NL1[u].endswith("e") else "en") + NL10[t]


def nl_999(n):
    h, r = divmod(n, 100)
    s = ""
    if h:
        s = ("" if h == 1 else NL1[h]) + "honderd"
    if r:
        s += nl_99(r)
    return s


def nl(n):
    if n == 0:
        return "nul"
    g = [(n // 1000 ** k) % 1000 for k in range(4)]
    w = []
    if g[3]:
        w.append(nl_999(g[3]) + " miljard")
    if g[2]:
        w.append(nl_999(g[2]) + " miljoen")
    if g[1]:
        w.append(("" if g[1] == 1 else nl_999(g[1])) + "duizend")
    if g[0]:
        w.append(nl_999(g[0]))
    return " ".join(w)


# ------------------------------------------------------------------ Portuguese (European spelling; below one million)
PT1 = "zero um dois três quatro cinco seis sete oito nove dez onze doze treze catorze quinze dezasseis dezassete dezoito dezanove".split()
PT10 = {2: "vinte", 3: "trinta", 4: "quarenta", 5: "cinquenta", 6: "sessenta", 7: "setenta", 8: "oitenta", 9: "noventa"}
PT100 = {1: "cento", 2: "duzentos", 3: "trezentos", 4: "quatrocentos", 5: "quinhentos", 6: "seiscentos", 7: "setecentos", 8: "oitocentos", 9: "novecentos"}


def pt_999(n):
    if n == 100:
        return "cem"
    parts = []
    h, r = divmod(n, 100)
    if h:
        parts.append(PT100[h])
    if r:
        if r < 20:
            parts.append(PT1[r])
        else:
            t, u = divmod(r, 10)
            parts.append(PT10[t] + (" e " + PT1[u] if u else ""))
    return " e ".join(parts)


def pt(n):
    if n == 0:
        return "zero"
    if n >= 10 ** 6:
        return None
    th, r = divmod(n, 1000)
    w = []
    if th:
        w.append("mil" if th == 1 else pt_999(th) + " mil")
    if r:
        # "e" links the thousands to a rest that is below 100 or a round hundred
        link = th and (r < 100 or r % 100 == 0)
        w.append(("e " if link else "") + pt_999(r))
    return " ".join(w)


SPELL = {"en": en, "fr": fr, "es": es, "it": it, "de": de, "nl": nl, "pt": pt}

# ------------------------------------------------------------------ ordinals (C04): (phrase, rendering) for rank n
EN_ORD = {"one": "first", "two": "second", "three": "third", "five": "fifth", "eight": "eighth", "nine": "ninth", "twelve": "twelfth"}


def en_ord(n):
    w = en(n)
    head, sep, last = w.rpartition("-") if "-" in w.split(" ")[-1] else w.rpartition(" ")
    if last in EN_ORD:
        o = EN_ORD[last]
    elif last.endswith("y"):
        o = last[:-1] + "ieth"
    else:
        o = last + "th"
    sfx = "th" if 10 <= n % 100 <= 20 else {1: "st", 2: "nd", 3: "rd"}.get(n % 10, "th")
    return (head + sep + o if head else o), f"{n}{sfx}"


def fr_ord(n):
    if n == 1:
        return "premier", "1er"
    w = fr(n)
    # the last word takes -ième
    i = max(w.rfind(" "), w.rfind("-"))
    head, last = w[:i + 1], w[i + 1:]
    if last in ("cents", "vingts"):
        last = last[:-1]
    if last == "cinq":
        last = "cinqu"
    elif last == "neuf":
        last = "neuv"
    elif last.endswith("e"):
        last = last[:-1]
    return head + last + "ième", f"{n}ème"


DE_ORD = {1: "erste", 3: "dritte", 7: "siebte", 8: "achte"}


def de_ord(n):
    if n >= 10 ** 6 or n == 0:
        return None
    g1, g0 = divmod(n, 1000)
    s = ""
    if g1:
        s += de_999(g1, False) + "tausend"
    h, r = divmod(g0, 100)
    if h:
        s += DE1[h] + "hundert"
    if r == 0:
        return s + "ste", f"{n}."
    if r < 20:
        return s + (DE_ORD.get(r) or DE1[r] + "te"), f"{n}."
    return s + de_99(r, False) + "ste", f"{n}."


def it_ord(n):
    if n <= 10 or n >= 10 ** 6:
        return None
    w = it(n).replace(" ", "")
    if w.endswith("dieci"):
        return w[:-5] + "decimo", f"{n}º"     # centodecimo
    if w.endswith("tré") or w.endswith("tre"):
        stem = w[:-1] + "e"        # ventitré, centotre -> ventitreesimo, centotreesimo
    elif w.endswith("sei"):
        stem = w                   # ventisei -> ventiseiesimo
    elif w.endswith("mila"):
        stem = w[:-2] + "ll"       # duemila -> duemillesimo
    else:
        stem = w[:-1]
    return stem + "esimo", f"{n}º"


NL_ORD = {1: "eerste", 3: "derde", 8: "achtste"}


def nl_ord(n):
    if n == 0 or n >= 10 ** 6:
        return None
    g1, g0 = divmod(n, 1000)
    parts = []
    if g1:
        parts.append(("" if g1 == 1 else nl_999(g1)) + "duizend")
    if g0 == 0:
        return " ".join(parts)[:] + "ste", f"{n}e"
    h, r = divmod(g0, 100)
    s = ""
    if h:
        s = ("" if h == 1 else NL1[h]) + "honderd"
    if r == 0:
        last = s + "ste"
    elif r < 20:
        last = s + (NL_ORD.get(r) or NL1[r] + "de")
    else:
        last = s + nl_99(r) + "ste"
    return " ".join(parts + [last]), f"{n}e"


ES_O1 = "_ primero segundo tercero cuarto quinto sexto séptimo octavo noveno".split()
ES_O10 = "_ décimo vigésimo trigésimo cuadragésimo quincuagésimo sexagésimo septuagésimo octogésimo nonagésimo".split()
ES_O100 = "_ centésimo ducentésimo tricentésimo cuadringentésimo quingentésimo sexcentésimo septingentésimo octingentésimo noningentésimo".split()


def es_ord(n):
    if n == 0 or n >= 2000 or n == 2:      # "segundo" alone is read as the time unit (pinned by the suite)
        return None
    w = []
    if n >= 1000:
        w.append("milésimo")
        n %= 1000
    full = n
    if n >= 100:
        w.append(ES_O100[n // 100])
        n %= 100
    if n == 11:
        w.append("undécimo")
    elif n == 12:
        w.append("duodécimo")
    elif 13 <= n <= 19:
        w.append({13: "decimotercero", 14: "decimocuarto", 15: "decimoquinto", 16: "decimosexto", 17: "decimoséptimo", 18: "decimoctavo", 19: "decimonoveno"}[n])
    else:
        if n >= 10:
            w.append(ES_O10[n // 10])
        if n % 10:
            w.append(ES_O1[n % 10])
    return " ".join(w), None


PT_O1 = "_ primeiro segundo terceiro quarto quinto sexto sétimo oitavo nono".split()
PT_O10 = "_ décimo vigésimo trigésimo quadragésimo quinquagésimo sexagésimo septuagésimo octogésimo nonagésimo".split()
PT_O100 = "_ centésimo ducentésimo trecentésimo quadringentésimo quingentésimo sexcentésimo septingentésimo octingentésimo noningentésimo".split()


def pt_ord(n):
    if n == 0 or n >= 1000:
        return None
    w = []
    if n >= 100:
        w.append(PT_O100[n // 100])
        n %= 100
    if n >= 10:
        w.append(PT_O10[n // 10])
    if n % 10:
        w.append(PT_O1[n % 10])
    return " ".join(w), None


ORD = {"en": en_ord, "fr": fr_ord, "de": de_ord, "it": it_ord, "nl": nl_ord, "es": es_ord, "pt": pt_ord}


def ord_sample(seed):
    rnd = random.Random(seed + 7)
    ns = list(range(1, 1201)) + [2000, 2001, 3008, 10000, 10001, 21000, 100000, 100021, 999999] + [rnd.randrange(1, 10 ** 6) for _ in range(600)]
    return sorted(set(ns))


def sample(seed):
    rnd = random.Random(seed)
    ns = list(range(0, 1201)) + list(range(1900, 2031)) + [k * 1000 + r for k in (1, 2, 3, 10, 11, 21, 31, 80, 100, 101, 121, 200, 999) for r in (0, 1, 8, 21, 100, 101, 180, 999)]
    ns += [k * 10 ** 6 + r for k in (1, 2, 21, 100, 101, 999) for r in (0, 1, 1000, 21000, 100000, 999999)]
    ns += [k * 10 ** 9 + r for k in (1, 2, 21, 101, 999) for r in (0, 1, 10 ** 6, 21 * 10 ** 6 + 1001, 999999999)]
    ns += [rnd.randrange(10 ** rnd.randint(3, 12)) for _ in range(1500)]
    return sorted(set(n for n in ns if n < 10 ** 12))


# ------------------------------------------------------------------ pairs (C08): two numbers below 100 said one after the other
CONJ = {"en": "and", "fr": "et", "es": "y", "pt": "e", "it": "e", "de": "und", "nl": "en"}
GLUED = ("it", "de", "nl")


def norm_words(code, phrase):
    w = phrase.replace("-", " ").split()
    if code == "fr":
        w = ["vingt" if x == "vingts" else x for x in w]     # the plural mark of quatre-vingts is not a different word
    return w


def pairs(code):
    """lines: lang<TAB>phrase<TAB>accepted renderings separated by '|'"""
    sp = SPELL[code]
    # every standard spelling below 200, as a word list (hyphens are word breaks) and, for glued languages, as one string
    by_words, by_glue = {}, {}
    conj = CONJ[code]
    for c in range(0, 200):
        # the conjunction is optional inside a number (C01: "optional conjunction"): spellings are compared without it
        w = [x for x in norm_words(code, sp(c)) if x != conj]
        by_words.setdefault(" ".join(w), c)
        by_glue.setdefault("".join(w).replace("ën", "en").replace("é", "e") if code in ("nl", "it") else "".join(w), c)
    out = []
    for a in range(1, 100):          # a leading zero attaches to the number that follows (C16), so a starts at 1
        for b in range(0, 100):
            for joiner in ("", CONJ[code]):
                if code == "fr" and 9 in (a, b):
                    continue    # "neuf" alone also means "new": the French annotation pass decides from the context (pinned by the suite)
                if code == "fr" and b >= 80 and a % 10 == 0 and (20 <= a <= 60 or a == 80):
                    continue    # "vingt quatre vingt": the words themselves are ambiguous (24 20 / 20 80)
                wa, wb = norm_words(code, sp(a)), norm_words(code, sp(b))
                words = wa + ([joiner] if joiner else []) + wb
                phrase = " ".join(words)
                ok = [f"{a} {joiner} {b}".replace("  ", " ")]
                core = [x for x in wa + wb if x != conj]
                fused = by_words.get(" ".join(core))
                if fused is None and code in GLUED:
                    # split forms of a glued compound ("ein und zwanzig" for "einundzwanzig"): compare the letters
                    g = "".join(wa + ([joiner] if joiner else []) + wb)
                    fused = by_glue.get(g.replace("ën", "en") if code == "nl" else g)
                    if fused is None:
                        fused = by_glue.get("".join(core).replace("é", "e"))
                if fused is not None:
                    ok.append(str(fused))
                out.append(f"{code}\t{phrase}\t{'|'.join(ok)}")
    return out


# ------------------------------------------------------------------ accepted orthographic variants (C01)
def fr_regional(n, eighty):
    """Belgian / Swiss tens: septante, huitante|octante|quatre-vingts, nonante"""
    def r99(m):
        if m < 70:
            return fr_99(m)
        t, u = divmod(m, 10)
        ten = {7: "septante", 8: eighty, 9: "nonante"}[t]
        if ten == "quatre-vingts":
            return fr_99(m)
        if u == 0:
            return ten
        return ten + (" et un" if u == 1 else "-" + FR1[u])

    def r999(m, plural_ok=True):
        w = []
        h, r = divmod(m, 100)
        if h == 1:
            w.append("cent")
        elif h > 1:
            w += [FR1[h], "cents" if (r == 0 and plural_ok) else "cent"]
        if r:
            x = r99(r)
            if not plural_ok and x == "quatre-vingts":
                x = "quatre-vingt"
            w.append(x)
        return w
    if n == 0:
        return "zéro"
    g = [(n // 1000 ** k) % 1000 for k in range(4)]
    w = []
    if g[3]:
        w += r999(g[3]) + ["milliard" if g[3] == 1 else "milliards"]
    if g[2]:
        w += r999(g[2]) + ["million" if g[2] == 1 else "millions"]
    if g[1]:
        w += ([] if g[1] == 1 else r999(g[1], plural_ok=False)) + ["mille"]
    if g[0]:
        w += r999(g[0])
    return " ".join(w)


def variants(code, n):
    base = SPELL[code](n)
    if base is None:
        return []
    out = []
    if code == "en":
        out.append(base.replace("-", " "))
        # British "and": after hundred inside a group, and before a last group below one hundred
        w = []
        for k, name in ((3, "billion"), (2, "million"), (1, "thousand"), (0, None)):
            g = (n // 1000 ** k) % 1000
            if not g:
                continue
            part = en_999(g)
            if g >= 100 and g % 100:
                part = part[:2] + ["and"] + part[2:]
            elif k == 0 and g < 100 and n >= 1000:
                part = ["and"] + part
            w += part + ([name] if name else [])
        out.append(" ".join(w))
    if code == "fr":
        out.append(base.replace("-", " "))
        for e in ("huitante", "octante", "quatre-vingts"):
            out.append(fr_regional(n, e))
    if code == "pt":
        out.append(base.replace("dezasseis", "dezesseis").replace("dezassete", "dezessete").replace("dezanove", "dezenove").replace("catorze", "quatorze"))
    if code == "de":
        out.append(base.replace("tausend", "tausend ").replace("  ", " ").strip())     # groups said apart
    if code == "es":
        out.append(base.replace("dieciséis", "dieciseis").replace("veintidós", "veintidos").replace("veintitrés", "veintitres").replace("veintiséis", "veintiseis"))
    return [v for v in dict.fromkeys(out) if v and v != base]


SEP = {"en": ("point", "."), "fr": ("virgule", ","), "es": ("coma", ","), "pt": ("vírgula", ","), "it": ("virgola", ","), "de": ("komma", ","), "nl": ("komma", ",")}
ZERO = {"en": "zero", "fr": "zéro", "es": "cero", "pt": "zero", "it": "zero", "de": "null", "nl": "nul"}


def decimals(code, seed):
    """C05: spell(n) + separator word + fraction (digit by digit in en/de; zeros then a spelled number elsewhere) -> n<mark>d"""
    rnd = random.Random(seed + 31)
    ns = [0, 1, 2, 3, 9, 10, 12, 20, 21, 99, 100, 101, 120, 999, 1000, 1200, 2019, 15000, 1000000] + [rnd.randrange(10 ** rnd.randint(1, 9)) for _ in range(60)]
    ds = ["0", "5", "05", "50", "14", "00", "005", "500", "236", "09", "90", "001", "1415", "000001", "75", "99", "100", "07"] + \
         ["".join(rnd.choice("0123456789") for _ in range(rnd.randint(1, 6))) for _ in range(40)]
    word, mark = SEP[code]
    digitw = DIGITS[code].split()
    out = []
    for n in ns:
        sp = SPELL[code](n)
        if sp is None:
            continue
        for d in dict.fromkeys(ds):
            if code in ("en", "de"):
                frac = " ".join(digitw[int(ch)] for ch in d)
            else:
                k = len(d) - len(d.lstrip("0"))
                rest = d[k:]
                parts = [ZERO[code]] * k
                if rest:
                    r = SPELL[code](int(rest))
                    if r is None:
                        continue
                    parts.append(r)
                frac = " ".join(parts)
            out.append(f"{code}\t{sp} {word} {frac}\t{n}{mark}{d}")
    return out


DIGITS = {"en": "zero one two three four five six seven eight nine", "fr": "zéro un deux trois quatre cinq six sept huit neuf",
          "es": "cero uno dos tres cuatro cinco seis siete ocho nueve", "pt": "zero um dois três quatro cinco seis sete oito nove",
          "it": "zero uno due tre quattro cinque sei sette otto nove", "de": "null eins zwei drei vier fünf sechs sieben acht neun",
          "nl": "nul een twee drie vier vijf zes zeven acht negen"}


def dictate(code, seed):
    """digit dictation (C08): zeros attach to the following non-zero digit, trailing zeros stand alone"""
    import itertools
    words = DIGITS[code].split()
    rnd = random.Random(seed + 13)
    strings = ["".join(t) for k in range(1, 5) for t in itertools.product("0123456789", repeat=k)]
    strings += ["".join(rnd.choice("0123456789") for _ in range(rnd.randint(5, 8))) for _ in range(2000)]
    out = []
    for d in strings:
        groups, zeros = [], ""
        for ch in d:
            if ch == "0":
                zeros += ch
            else:
                groups.append(zeros + ch)
                zeros = ""
        if zeros:
            groups.append(zeros)
        out.append(f"{code}\t{' '.join(words[int(ch)] for ch in d)}\t{' '.join(groups)}")
    return out


if __name__ == "__main__":
    if len(sys.argv) > 2 and sys.argv[2] == "decimals":
        for code in (sys.argv[3:] or list(SPELL)):
            print("\n".join(decimals(code, int(sys.argv[1]))))
        sys.exit(0)
    if len(sys.argv) > 2 and sys.argv[2] == "dictate":
        for code in (sys.argv[3:] or list(SPELL)):
            print("\n".join(dictate(code, int(sys.argv[1]))))
        sys.exit(0)
    if len(sys.argv) > 2 and sys.argv[2] == "variants":
        rnd = random.Random(int(sys.argv[1]) + 29)
        ns = sorted(set(list(range(0, 1201)) + [rnd.randrange(10 ** rnd.randint(3, 12)) for _ in range(600)]))
        for code in (sys.argv[3:] or ["en", "fr", "pt", "de", "es"]):
            for n in ns:
                for v in variants(code, n):
                    print(f"{code}\t{v}\t{n}")
        sys.exit(0)
    if len(sys.argv) > 2 and sys.argv[2] == "pairs":
        for code in (sys.argv[3:] or list(SPELL)):
            print("\n".join(pairs(code)))
        sys.exit(0)
    seed = int(sys.argv[1]) if len(sys.argv) > 1 else 0
    if len(sys.argv) > 2 and sys.argv[2] == "ordinals":
        for code in (sys.argv[3:] or list(ORD)):
            for n in ord_sample(seed):
                r = ORD[code](n)
                if r is not None:
                    print(f"{code}\t{r[0]}\t{r[1] or (str(n) + 'º')}")
        sys.exit(0)
    langs = sys.argv[2:] or list(SPELL)
    for code in langs:
        for n in sample(seed):
            s = SPELL[code](n)
            if s is not None:
                print(f"{code}\t{s}\t{n}")
