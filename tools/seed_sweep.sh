#!/bin/sh
# usage: tools/seed_sweep.sh [ID_k ...]  -- for each seeded change: apply to /repo, run the check of its property, undo. Prints one line per seed.
cd /verif
SEEDS="$@"
# evidence files are rewritten by every check run: keep the clean-tree ones aside and put them back afterwards
rm -rf /tmp/evidence_keep && cp -r /verif/evidence /tmp/evidence_keep
[ -z "$SEEDS" ] && SEEDS=$(ls seeded)
for s in $SEEDS; do
  pid=$(echo $s | cut -d_ -f1)
  if ! git -C /repo apply --check /verif/seeded/$s/patch.diff 2>/dev/null; then echo "$s: patch does not apply"; continue; fi
  git -C /repo apply /verif/seeded/$s/patch.diff
  t0=$(date +%s)
  ./check $pid quick > /tmp/seed_$s.out 2>&1; rc=$?
  git -C /repo checkout -- .
  echo "$s: exit=$rc $(( $(date +%s) - t0 ))s :: $(grep -m1 -E 'VIOLATION|UNDECIDED|^OK' /tmp/seed_$s.out | cut -c1-220)"
done
rm -rf /verif/evidence && mv /tmp/evidence_keep /verif/evidence
