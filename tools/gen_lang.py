#!/usr/bin/env python3
"""Generates the per-language spec templates under specs/templates/ :
   <c>_words.inc   opaque word constants w_<name>() + bridging lemmas vx_lit_<name>() ("lit"@ == w_<name>())
   <c>_words.json  the list of words so defined (plan.known_lits of the extractor)
   <c>_model.inc   arm-level model of apply: <c>_arm(lemma) -> arm index, <c>_arm_sem(arm, state) -> outcome   (layer L3a)
   <c>_rows.inc    grammar table rows and the lemmas  model |= row   (layer L3b; the oracle is the grammar, not the code)
The arm tables are written by hand per language (transliteration of the match, reviewed against the grammar);
the grammar tables are written independently of the code."""
import json, os, sys

VERIF = os.path.dirname(os.path.dirname(os.path.abspath(__file__)))
T = os.path.join(VERIF, "specs", "templates")


def wname(w):
    o = ""
    for ch in w:
        o += ch if (ch.isascii() and ch.isalnum()) else "_u%04x" % ord(ch)
    return o or "_empty"


def W(w):
    return f"w_{wname(w)}()"


ALPHABET = "abcdefghijklmnopqrstuvwxyz-'àâäçéèêëîïôöùûüáíóúñãõìòßij "


def cval(ch):
    i = ALPHABET.find(ch)
    return i + 1 if i >= 0 else 0


def wcode(w):
    h = 7
    for ch in w:
        h = h * 131 + cval(ch)
    return h


def emit_wcode():
    o = ["/// integer value of a character (a fixed alphabet; the interpreter cannot cast chars to integers)",
         "pub open spec fn cval(c: char) -> int {"]
    for i, ch in enumerate(ALPHABET):
        lit = "'\\''" if ch == "'" else f"'{ch}'"
        o.append(f"    {'if' if i == 0 else 'else if'} c == {lit} {{ {i + 1} }}")
    o.append("    else { 0 }")
    o.append("}")
    o.append("/// integer fingerprint of a word (used only to tell string literals apart cheaply: different fingerprints => different words)")
    o.append("pub open spec fn wcode(s: Seq<char>) -> int decreases s.len() {")
    o.append("    if s.len() == 0 { 7 } else { wcode(s.drop_last()) * 131 + cval(s.last()) }")
    o.append("}")
    open(os.path.join(T, "wcode.inc"), "w", encoding="utf-8").write("\n".join(o) + "\n")


def seqlit(w):
    return "seq![" + ", ".join("'%s'" % (c if c != "'" else "\\'") for c in w) + "]" if w else "Seq::<char>::empty()"


def cond(words, var="l"):
    return "(" + " || ".join(f"{var} == {W(w)}" for w in words) + ")"


def digs(s):
    return {1: "d1", 2: "d2", 3: "d3"}[len(s)] + "(" + ", ".join(f"{ord(c)}u8" for c in s) + ")"


def emit_words(c, words, inner_lemmas, arms=None):
    """module <c>w: closed word constants (atoms for the solver, spelled-out for the interpreter inside the module),
    bridging lemmas literal == constant, and the closed-computation lemmas that need the spellings"""
    words = sorted(set(words))
    o = [f"// word constants of the `{c}` model: `closed`, so the solver treats every word as an atom; inside the module the",
         f"// interpreter can evaluate their spelling (classification lemmas). vx_lit_<w>: code literal == constant.",
         f"pub mod {c}w {{",
         "    use vstd::prelude::*; use super::*;"]
    for w in words:
        n = wname(w)
        lit = json.dumps(w, ensure_ascii=False)
        o.append(f"    #[verifier::opaque] pub closed spec fn w_{n}() -> Seq<char> {{ {seqlit(w)} }}")
        o.append(f"    pub proof fn vx_lit_{n}() ensures {lit}@ == w_{n}() {{ reveal(w_{n}); reveal_strlit({lit}); assert({lit}@ =~= {seqlit(w)}); }}")
    if arms is not None:
        mw = sorted(set(w for ws, _, _ in arms for w in ws))
        o.append(f"    /// integer fingerprints of the model's words (computed on their spelling): different fingerprints => different words")
        o.append(f"    pub proof fn {c}_codes()")
        o.append("        ensures " + ",\n                ".join(f"wcode({W(w)}) == {wcode(w)}" for w in mw))
        o.append("    {")
        for w in mw:
            o.append(f"        assert(wcode({W(w)}) == {wcode(w)}) by(compute_only);")
        o.append("    }")
    if arms is not None:
        mw = sorted(set(w for ws, _, _ in arms for w in ws))
        pairs = [(a, b) for i, a in enumerate(mw) for b in mw[i + 1:]]
        o.append(f"    /// the words of the model are pairwise different (from their fingerprints)")
        o.append(f"    pub proof fn {c}_distinct()")
        o.append("        ensures " + ",\n                ".join(f"{W(a)} != {W(b)}" for a, b in pairs))
        o.append(f"    {{ {c}_codes(); }}")
    wc = open(os.path.join(T, "wcode.inc"), encoding="utf-8").read().replace("pub open spec fn", "#[verifier::opaque] pub closed spec fn")
    o += ["    " + l for l in wc.split("\n")]
    inner_path = os.path.join(T, f"{c}_inner.inc")
    if os.path.exists(inner_path):
        o += ["    " + l for l in open(inner_path, encoding="utf-8").read().split("\n")]
    o += ["    " + l for l in inner_lemmas]
    o.append("}")
    o.append(f"pub use {c}w::*;")
    open(os.path.join(T, f"{c}_words.inc"), "w", encoding="utf-8").write("\n".join(o) + "\n")
    json.dump(words, open(os.path.join(T, f"{c}_words.json"), "w", encoding="utf-8"), ensure_ascii=False)


def emit_model(c, arms, doc):
    """<c>_status: direct if-chain mirroring the match of the code (word alternatives, guard, action; a failed guard falls
    through).  <c>_arm / <c>_arm_sem: the same table split into word classification and state part."""
    out = [f"/// {doc}",
           f"#[verifier::opaque] pub open spec fn {c}_status(l: Seq<char>, o: DsView) -> ApRes {{"]
    for k, (ws, g, act) in enumerate(arms):
        cnd = cond(ws) + (f" && ({g})" if g else "")
        out.append(f"    {'if' if k == 0 else 'else if'} {cnd} {{ {act} }}")
    out.append("    else { err_res(o, Error::NaN) }")
    out.append("}")
    open(os.path.join(T, f"{c}_model.inc"), "w", encoding="utf-8").write("\n".join(out) + "\n")
    arm_of = {}
    for k, (ws, g, act) in enumerate(arms):
        for w in ws:
            arm_of.setdefault(w, k)
    return arm_of


# ------------------------------------------------------------------ English
def english():
    c = "en"
    NOT10 = "!(peek2(o) == d2(49u8, 48u8))"
    arms = [(["zero", "o", "nought"], None, "put_res(o, d1(48u8))")]
    units = [("one", "first", "oneth"), ("two", "second"), ("three", "third"), ("four", "fourth"), ("five", "fifth"), ("six", "sixth"),
             ("seven", "seventh"), ("eight", "eighth"), ("nine", "ninth")]
    for i, ws in enumerate(units):
        arms.append((list(ws), NOT10, f"put_res(o, d1({49 + i}u8))"))
    two = [("ten", "tenth", "10"), ("eleven", "eleventh", "11"), ("twelve", "twelfth", "12"), ("thirteen", "thirteenth", "13"),
           ("fourteen", "fourteenth", "14"), ("fifteen", "fifteenth", "15"), ("sixteen", "sixteenth", "16"), ("seventeen", "seventeenth", "17"),
           ("eighteen", "eighteenth", "18"), ("nineteen", "nineteenth", "19"), ("twenty", "twentieth", "20"), ("thirty", "thirtieth", "30")]
    for a, b, v in two:
        arms.append(([a, b], None, f"put_res(o, {digs(v)})"))
    arms.append((["fourty", "forty", "fortieth", "fourtieth"], None, f"put_res(o, {digs('40')})"))
    arms.append((["fifty", "fiftieth"], None, f"put_res(o, {digs('50')})"))
    arms.append((["sixty", "sixtieth"], None, f"put_res(o, {digs('60')})"))
    arms.append((["seventy", "seventieth"], None, f"put_res(o, {digs('70')})"))
    arms.append((["eighty", "eightieth"], None, f"put_res(o, {digs('80')})"))
    arms.append((["ninety", "ninetieth"], None, f"put_res(o, {digs('90')})"))
    arms.append((["hundred", "hundredth"], None,
                 "if peek2(o).len() == 1 || !(peek2(o) == d2(48u8, 48u8)) { shift_res(o, 2) } else { err_res(o, Error::Overlap) }"))
    arms.append((["thousand", "thousandth"], "range_free_spec(o, 3, 5)", "shift_res(o, 3)"))
    arms.append((["million", "millionth"], "range_free_spec(o, 6, 8)", "shift_res(o, 6)"))
    arms.append((["billion", "billionth"], None, "shift_res(o, 9)"))
    arms.append((["and"], "size_of(o) >= 2", "err_res(o, Error::Incomplete)"))
    arm_of = emit_model(c, arms, "arm-level model of English::apply for a word without hyphen (layer L3a)")
    # ---- grammar table (independent of the code): word -> (instr, marker)
    u = [("one", "first", "st"), ("two", "second", "nd"), ("three", "third", "rd"), ("four", "fourth", "th"), ("five", "fifth", "th"),
         ("six", "sixth", "th"), ("seven", "seventh", "th"), ("eight", "eighth", "th"), ("nine", "ninth", "th")]
    teens = [("ten", "tenth", 10), ("eleven", "eleventh", 11), ("twelve", "twelfth", 12), ("thirteen", "thirteenth", 13), ("fourteen", "fourteenth", 14),
             ("fifteen", "fifteenth", 15), ("sixteen", "sixteenth", 16), ("seventeen", "seventeenth", 17), ("eighteen", "eighteenth", 18), ("nineteen", "nineteenth", 19)]
    tens = [("twenty", "twentieth", 20), ("thirty", "thirtieth", 30), ("forty", "fortieth", 40), ("fifty", "fiftieth", 50), ("sixty", "sixtieth", 60),
            ("seventy", "seventieth", 70), ("eighty", "eightieth", 80), ("ninety", "ninetieth", 90)]
    scales = [("hundred", "hundredth", "Hundred"), ("thousand", "thousandth", "Thousand"), ("million", "millionth", "Million"), ("billion", "billionth", "Billion")]
    rows = [(w, "EnI::Zero", None) for w in ["zero", "o", "nought"]]
    for i, (cw, ow, m) in enumerate(u):
        rows += [(cw, f"EnI::Unit({49 + i}u8)", None), (ow, f"EnI::Unit({49 + i}u8)", m)]
        if ow not in ("first", "second"):
            rows.append((ow + "s", f"EnI::Unit({49 + i}u8)", m + "s"))
    for cw, ow, v in teens + tens:
        ins = f"EnI::Two({48 + v // 10}u8, {48 + v % 10}u8)"
        rows += [(cw, ins, None), (ow, ins, "th"), (ow + "s", ins, "ths")]
    for cw, ow, k in scales:
        rows += [(cw, f"EnI::{k}", None), (cw + "s", f"EnI::{k}", None), (ow, f"EnI::{k}", "th"), (ow + "s", f"EnI::{k}", "ths")]

    def lemma_of(w):
        return w.rstrip("s") if (w.endswith("s") and w != "seconds") else w

    def marker_of(w):
        if w.endswith("th"):
            return "th"
        if w.endswith("ths"):
            return "ths"
        return {"first": "st", "second": "nd", "third": "rd", "thirds": "rds"}.get(w)

    extra = ["seconds", "th", "ths", "first", "second", "third", "thirds", "st", "nd", "rd", "rds", "point", "-", ""]
    allwords = set(w for ws, _, _ in arms for w in ws) | set(w for w, _, _ in rows) | set(lemma_of(w) for w, _, _ in rows) | set(extra)
    # (fingerprint lemmas are no longer needed: words are classified by the interpreter)
    o = ["// English grammar table (written from the grammar, not from the code): word -> place-value instruction, ordinal marker",
         "pub enum EnI { Zero, Unit(u8), Two(u8, u8), Hundred, Thousand, Million, Billion }"]
    KIND = {None: 0, "th": 1, "ths": 2, "st": 3, "nd": 4, "rd": 5, "rds": 6}
    inner = []
    NMOD = 8
    mods = [[] for _ in range(NMOD)]
    for k, (w, ins, m) in enumerate(rows):
        l = lemma_of(w)
        ordf = l.endswith("th") or w in ("first", "second") or l == "third"
        kind = KIND[marker_of(w)]
        inner.append(f"/// string-level facts about `{w}` (closed computation on its spelling)")
        inner.append(f"pub proof fn lemma_en_word_{k}()")
        inner.append(f"    ensures en_lemma({W(w)}) == {W(l)}, en_ord_form({W(w)}, {W(l)}) == {'true' if ordf else 'false'}, en_marker_kind({W(w)}) == {kind},")
        inner.append("{")
        inner.append(f"    assert(en_lemma({W(w)}) =~= {W(l)}) by(compute_only);")
        inner.append(f"    assert(en_ord_form({W(w)}, {W(l)}) == {'true' if ordf else 'false'}) by(compute_only);")
        inner.append(f"    assert(en_marker_kind({W(w)}) == {kind}) by(compute_only);")
        inner.append("}")
        b = mods[k % NMOD]
        b.append(f"    // props: C01, C04, C08, C16")
        b.append(f"    /// grammar row `{w}` -> {ins}" + (f", ordinal marker `{m}`" if m else ""))
        b.append(f"    pub proof fn lemma_en_row_{k}(o: DsView)")
        b.append(f"        ensures en_row({ins}, {KIND[m]}, o, en_model({W(w)}, o))")
        b.append("    {")
        b.append(f"        en_distinct(); lemma_en_word_{k}(); reveal(en_status);")
        b.append("    }")
    for i, b in enumerate(mods):
        o.append(f"pub mod en_rows_{i} {{")
        o.append("    use vstd::prelude::*; use super::*;")
        o += b
        o.append("}")
    emit_words(c, allwords, inner, arms)
    open(os.path.join(T, "en_rows.inc"), "w", encoding="utf-8").write("\n".join(o) + "\n")
    def expect(ins, m):
        import re as _re
        mm = _re.match(r"EnI::(\w+)(?:\((.*)\))?", ins)
        kind, args = mm.group(1), [int(x.replace("u8", "")) for x in (mm.group(2) or "").split(",") if x.strip()]
        base = {"Zero": "0", "Hundred": "100", "Thousand": "1000", "Million": "1000000", "Billion": "1000000000"}.get(kind)
        if base is None:
            base = "".join(chr(a) for a in args)
        return base + (m or "")
    json.dump([{"word": w, "instr": ins, "marker": m, "expect": expect(ins, m)} for w, ins, m in rows], open(os.path.join(T, "en_rows.json"), "w"))
    print("en:", len(arms), "arms,", len(rows), "rows,", len(allwords), "words")


if __name__ == "__main__":
    emit_wcode()
    english()
