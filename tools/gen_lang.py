#!/usr/bin/env python3
"""Generates the per-language spec templates under specs/templates/ from FROZEN tables (never from /repo):
   specs/tables/<c>_arms.json   arm-level model of the `match` in apply (bootstrapped once by tools/bootstrap_arms.py,
                                then reviewed/corrected by hand; states the INTENDED table)
   the grammar rows below        written from each language's grammar, independently of the code (the oracle)
outputs:
   <c>_words.inc   module <c>w: closed+opaque word constants, bridging lemmas vx_lit_<w>, fingerprints, pairwise
                   distinctness, the hand-written string-level functions (<c>_inner.inc) and per-word closed computations
   <c>_model.inc   <c>_status(lemma, state[, ctx]) : if-chain mirroring the match (layer L3a)
   <c>_rows.inc    row lemmas: model of each grammar word == what the grammar says (layer L3b)
   <c>_rows.json   grammar rows with the expected rendering (used by the witness search only)"""
import json, os, re, sys

VERIF = os.path.dirname(os.path.dirname(os.path.abspath(__file__)))
T = os.path.join(VERIF, "specs", "templates")
T_ = T
TB = os.path.join(VERIF, "specs", "tables")

ALPHABET = "abcdefghijklmnopqrstuvwxyz-'àâäçéèêëîïôöùûüáíóúñãõìòßij ,"


def wname(w):
    o = ""
    for ch in w:
        o += ch if (ch.isascii() and ch.isalnum()) else "_u%04x" % ord(ch)
    return o or "_empty"


def W(w):
    return f"w_{wname(w)}()"


def cval(ch):
    i = ALPHABET.find(ch)
    return i + 1 if i >= 0 else 0


def wcode(w):
    h = 7
    for ch in w:
        h = h * 131 + cval(ch)
    return h


def seqlit(w):
    return "seq![" + ", ".join("'%s'" % (c if c != "'" else "\\'") for c in w) + "]" if w else "Seq::<char>::empty()"


def cond(words, var="l"):
    return "(" + " || ".join(f"{var} == {W(w)}" for w in words) + ")"


def digs(s):
    return {1: "d1", 2: "d2", 3: "d3", 4: "d4"}[len(s)] + "(" + ", ".join(f"{ord(c)}u8" for c in s) + ")"


def emit_wcode():
    o = ["/// integer value of a character (a fixed alphabet; the interpreter cannot cast chars to integers)",
         "pub open spec fn cval(c: char) -> int {"]
    for i, ch in enumerate(ALPHABET):
        lit = "'\\''" if ch == "'" else f"'{ch}'"
        o.append(f"    {'if' if i == 0 else 'else if'} c == {lit} {{ {i + 1} }}")
    o.append("    else { 0 }")
    o.append("}")
    o.append("/// integer fingerprint of a word (used only to tell words apart cheaply: different fingerprints => different words)")
    o.append("pub open spec fn wcode(s: Seq<char>) -> int decreases s.len() {")
    o.append("    if s.len() == 0 { 7 } else { wcode(s.drop_last()) * 131 + cval(s.last()) }")
    o.append("}")
    o += ["/// no '-' at or after index i (evaluated on a word's spelling by the interpreter)",
          "pub open spec fn no_dash_from(s: Seq<char>, i: int) -> bool decreases s.len() - i {",
          "    if i < 0 || i >= s.len() { true } else { s[i] != '-' && no_dash_from(s, i + 1) }",
          "}",
          "pub proof fn lemma_no_dash(s: Seq<char>, i: int)",
          "    requires no_dash_from(s, i), 0 <= i",
          "    ensures forall|k: int| i <= k < s.len() ==> s[k] != '-', i == 0 ==> !s.contains('-')",
          "    decreases s.len() - i",
          "{ reveal(no_dash_from); if i < s.len() { lemma_no_dash(s, i + 1); } }"]
    open(os.path.join(T, "wcode.inc"), "w", encoding="utf-8").write("\n".join(o) + "\n")


def load_arms(c):
    return [(a["words"], a["guard"], a["action"]) for a in json.load(open(os.path.join(TB, f"{c}_arms.json"), encoding="utf-8"))]


def emit_words(c, words, inner_lemmas, arms):
    """module <c>w (see file header)"""
    words = sorted(set(words))
    for w in words:
        for ch in w:
            if cval(ch) == 0:
                raise SystemExit(f"character {ch!r} of word {w!r} is not in ALPHABET")
    o = [f"// word constants of the `{c}` model: `closed`+opaque, so the solver treats every word as an atom; inside the module the",
         f"// interpreter can evaluate their spelling (closed computations). vx_lit_<w>: code literal == constant.",
         f"pub mod {c}w {{",
         "    use vstd::prelude::*; use super::*;"]
    for w in words:
        n = wname(w)
        lit = json.dumps(w, ensure_ascii=False)
        o.append(f"    #[verifier::opaque] pub closed spec fn w_{n}() -> Seq<char> {{ {seqlit(w)} }}")
        o.append(f"    pub proof fn vx_lit_{n}() ensures {lit}@ == w_{n}() {{ reveal(w_{n}); reveal_strlit({lit}); assert({lit}@ =~= {seqlit(w)}); }}")
        if len(w) <= 4:
            facts = " && ".join([f"w_{n}().len() == {len(w)}"] + [f"w_{n}()[{i}] == " + ("'\\''" if ch == "'" else f"'{ch}'") for i, ch in enumerate(w)])
            o.append(f"    pub proof fn vx_chars_{n}() ensures {facts} {{ reveal(w_{n}); }}")
    mw = sorted(set(w for ws, _, _ in arms for w in ws))
    o.append(f"    /// integer fingerprints of the model's words (computed on their spelling)")
    o.append(f"    pub proof fn {c}_codes()")
    o.append("        ensures " + ",\n                ".join(f"wcode({W(w)}) == {wcode(w)}" for w in mw))
    o.append("    {")
    for w in mw:
        o.append(f"        assert(wcode({W(w)}) == {wcode(w)}) by(compute_only);")
    o.append("    }")
    wc = open(os.path.join(T, "wcode.inc"), encoding="utf-8").read().replace("pub open spec fn", "#[verifier::opaque] pub closed spec fn")
    o += ["    " + l for l in wc.split("\n")]
    inner_path = os.path.join(T, f"{c}_inner.inc")
    if os.path.exists(inner_path):
        o += ["    " + l for l in open(inner_path, encoding="utf-8").read().split("\n")]
    o += ["    " + l for l in inner_lemmas]
    o.append("}")
    o.append(f"pub use {c}w::*;")
    open(os.path.join(T, f"{c}_words.inc"), "w", encoding="utf-8").write("\n".join(o) + "\n")
    json.dump(words, open(os.path.join(T, f"{c}_words.json"), "w", encoding="utf-8"), ensure_ascii=False)


def emit_model(c, arms, doc, extra_params="", ret="ApRes", default="err_res(o, Error::NaN)"):
    out = [f"/// {doc}",
           f"#[verifier::opaque] pub open spec fn {c}_status(l: Seq<char>, o: DsView{extra_params}) -> {ret} {{"]
    for k, (ws, g, act) in enumerate(arms):
        cnd = cond(ws) + (f" && ({g})" if g else "")
        out.append(f"    {'if' if k == 0 else 'else if'} {cnd} {{ {act} }}")
    out.append(f"    else {{ {default} }}")
    out.append("}")
    open(os.path.join(T, f"{c}_model.inc"), "w", encoding="utf-8").write("\n".join(out) + "\n")


ARMS_CURRENT = []


def emit_rows(c, rows, word_facts, row_stmt, nmod=8, props="C01, C04, C08, C16", row_params="o: DsView", row_extra=None):
    """rows: list of dicts with at least `word`,`desc`; word_facts(row) -> (ensures_text, [compute asserts]); row_stmt(row) -> ensures text"""
    inner = []
    names = [wname(r["word"]) for r in rows]
    assert len(set(names)) == len(names), "duplicate row word: " + str([n for n in names if names.count(n) > 1])

    def rname(r):
        return wname(r["word"])
    mods = [[] for _ in range(nmod)]
    mw = sorted(set(w for ws, _, _ in ARMS_CURRENT for w in ws))
    done_ne = set()
    for k, r in enumerate(rows):
        ens, asserts, lw = word_facts(r)
        if lw not in done_ne:
            done_ne.add(lw)
            others = [x for x in mw if x != lw]
            inner.append(f"/// `{lw}` differs from every other word of the model (fingerprints)")
            inner.append(f"pub proof fn {c}_ne_{wname(lw)}()")
            inner.append("    ensures " + ",\n            ".join(f"{W(lw)} != {W(x)}" for x in others))
            inner.append("{")
            inner.append(f"    {c}_codes(); assert(wcode({W(lw)}) == {wcode(lw)}) by(compute_only);")
            inner.append("}")
        inner.append(f"/// string-level facts about `{r['word']}` (closed computation on its spelling)")
        inner.append(f"pub proof fn lemma_{c}_word_{k}()")
        inner.append(f"    ensures {ens},")
        inner.append("{")
        inner += ["    " + a for a in asserts]
        inner.append("}")
        b = mods[k % nmod]
        b.append(f"    // props: {r.get('props', props)}")
        b.append(f"    /// grammar row `{r['word']}` -> {r['desc']}")
        b.append(f"    pub proof fn lemma_{c}_row_{rname(r)}({row_params})")
        b.append(f"        ensures {row_stmt(r)}")
        b.append("    {")
        b.append(f"        {c}_ne_{wname(lw)}(); lemma_{c}_word_{k}(); reveal({c}_status);" + (" " + row_extra(r) if row_extra else ""))
        b.append("    }")
    o = []
    for k, r in enumerate(rows):
        if r["word"] == ",":
            o.append(f"/// a comma is refused by the interpreter, and not as `incomplete`")
            o.append(f"pub proof fn lemma_{c}_comma(o: DsView) ensures {row_stmt(r)}, {word_facts(r)[0]} {{ {c}_rows_{k % nmod}::lemma_{c}_row_{rname(r)}(o); lemma_{c}_word_{k}(); }}")
    for i, b in enumerate(mods):
        o.append(f"pub mod {c}_rows_{i} {{")
        o.append("    use vstd::prelude::*; use super::*;")
        o += b
        o.append("}")
    open(os.path.join(T, f"{c}_rows.inc"), "w", encoding="utf-8").write("\n".join(o) + "\n")
    return inner


# ------------------------------------------------------------------ English
def english():
    c = "en"
    arms = load_arms(c)
    emit_model(c, arms, "arm-level model of English::apply for a word without hyphen (layer L3a)")
    u = [("one", "first", "st"), ("two", "second", "nd"), ("three", "third", "rd"), ("four", "fourth", "th"), ("five", "fifth", "th"),
         ("six", "sixth", "th"), ("seven", "seventh", "th"), ("eight", "eighth", "th"), ("nine", "ninth", "th")]
    teens = [("ten", "tenth", 10), ("eleven", "eleventh", 11), ("twelve", "twelfth", 12), ("thirteen", "thirteenth", 13), ("fourteen", "fourteenth", 14),
             ("fifteen", "fifteenth", 15), ("sixteen", "sixteenth", 16), ("seventeen", "seventeenth", 17), ("eighteen", "eighteenth", 18), ("nineteen", "nineteenth", 19)]
    tens = [("twenty", "twentieth", 20), ("thirty", "thirtieth", 30), ("forty", "fortieth", 40), ("fifty", "fiftieth", 50), ("sixty", "sixtieth", 60),
            ("seventy", "seventieth", 70), ("eighty", "eightieth", 80), ("ninety", "ninetieth", 90)]
    scales = [("hundred", "hundredth", "Hundred", "100"), ("thousand", "thousandth", "Thousand", "1000"), ("million", "millionth", "Million", "1000000"),
              ("billion", "billionth", "Billion", "1000000000")]
    rows = []

    def add(w, ins, m, base):
        rows.append({"word": w, "instr": ins, "marker": m, "expect": base + (m or ""), "desc": ins + (f", ordinal marker `{m}`" if m else "")})
    for w in ["zero", "o", "nought"]:
        add(w, "EnI::Zero", None, "0")
    for i, (cw, ow, m) in enumerate(u):
        add(cw, f"EnI::Unit({49 + i}u8)", None, str(i + 1))
        add(ow, f"EnI::Unit({49 + i}u8)", m, str(i + 1))
        if ow not in ("first", "second"):
            add(ow + "s", f"EnI::Unit({49 + i}u8)", m + "s", str(i + 1))
    for cw, ow, v in teens + tens:
        ins = f"EnI::Two({48 + v // 10}u8, {48 + v % 10}u8)"
        add(cw, ins, None, str(v))
        add(ow, ins, "th", str(v))
        add(ow + "s", ins, "ths", str(v))
    for cw, ow, k, base in scales:
        add(cw, f"EnI::{k}", None, base)
        add(cw + "s", f"EnI::{k}", None, base)
        add(ow, f"EnI::{k}", "th", base)
        add(ow + "s", f"EnI::{k}", "ths", base)

    def lemma_of(w):
        return w.rstrip("s") if (w.endswith("s") and w != "seconds") else w

    def marker_of(w):
        if w.endswith("th"):
            return "th"
        if w.endswith("ths"):
            return "ths"
        return {"first": "st", "second": "nd", "third": "rd", "thirds": "rds"}.get(w)
    KIND = {None: 0, "th": 1, "ths": 2, "st": 3, "nd": 4, "rd": 5, "rds": 6}

    def word_facts(r):
        w = r["word"]
        l = lemma_of(w)
        ordf = l.endswith("th") or w in ("first", "second") or l == "third"
        kind = KIND[marker_of(w)]
        ens = f"en_lemma({W(w)}) == {W(l)}, en_ord_form({W(w)}, {W(l)}) == {'true' if ordf else 'false'}, en_marker_kind({W(w)}) == {kind}, no_dash_from({W(w)}, 0)"
        asserts = [f"assert(no_dash_from({W(w)}, 0)) by(compute_only);", f"assert(en_lemma({W(w)}) =~= {W(l)}) by(compute_only);",
                   f"assert(en_ord_form({W(w)}, {W(l)}) == {'true' if ordf else 'false'}) by(compute_only);",
                   f"assert(en_marker_kind({W(w)}) == {kind}) by(compute_only);"]
        return ens, asserts, l

    rows.append({"word": ",", "instr": None, "marker": None, "expect": None, "desc": "a comma is never a number word (it ends the number in progress)"})
    rows.append({"word": "and", "instr": None, "marker": None, "expect": None, "desc": "the conjunction: a link word once the number has two digits, not a number word otherwise"})
    rows.append({"word": "point", "instr": None, "marker": None, "expect": None, "desc": "the decimal separator is not a number word: refused, and not as a link word"})

    def row_stmt(r):
        if r["word"] == ",":
            return f"!en_model({W(',')}, o).ok && !(en_model({W(',')}, o).err is Incomplete)"
        if r["word"] == "point":
            return f"en_model({W('point')}, o) == err_res(o, Error::NaN), !{W('point')}.contains('-')"
        if r["word"] == "and":
            return f"en_model({W('and')}, o) == (if size_of(o) >= 2 {{ err_res(o, Error::Incomplete) }} else {{ err_res(o, Error::NaN) }}), !{W('and')}.contains('-')"
        return f"en_row({r['instr']}, {KIND[r['marker']]}, o, en_model({W(r['word'])}, o)), !{W(r['word'])}.contains('-')"
    extra = ["seconds", "th", "ths", "first", "second", "third", "thirds", "st", "nd", "rd", "rds", "point", "-", ""]
    allwords = set(w for ws, _, _ in arms for w in ws) | set(r["word"] for r in rows) | set(lemma_of(r["word"]) for r in rows) | set(extra)
    ARMS_CURRENT[:] = arms
    inner = emit_rows(c, rows, word_facts, row_stmt, row_extra=lambda r: f"lemma_no_dash({W(r['word'])}, 0);")
    emit_words(c, allwords, inner, arms)
    json.dump(rows, open(os.path.join(T, f"{c}_rows.json"), "w", encoding="utf-8"), ensure_ascii=False)
    # dispatch lemmas for the spelling driver: the row of a word chosen by its digit(s)
    modof = {r["word"]: k % 8 for k, r in enumerate(rows)}
    d = ["// generated by tools/gen_lang.py: words of the English speller chosen by digit, with their grammar rows (used by en_driver.inc)"]

    def sel(name, doc, ws, lo):
        d.append(f"/// {doc}")
        d.append(f"pub open spec fn {name}(d: int) -> Seq<char> {{ " + " else ".join(f"if d == {lo + i} {{ {W(w)} }}" for i, w in enumerate(ws[:-1])) + f" else {{ {W(ws[-1])} }} }}")
    sel("en_unit_w", "cardinal word of the digit d in 1..9", [x[0] for x in u], 1)
    sel("en_teen_w", "cardinal word of 10 + d, d in 0..9", [x[0] for x in teens], 0)
    sel("en_tens_w", "cardinal word of 10 * d, d in 2..9", [x[0] for x in tens], 2)
    sel("en_unit_ow", "ordinal word of the digit d in 1..9", [x[1] for x in u], 1)
    sel("en_teen_ow", "ordinal word of 10 + d, d in 0..9", [x[1] for x in teens], 0)
    sel("en_tens_ow", "ordinal word of 10 * d, d in 2..9", [x[1] for x in tens], 2)

    def disp(name, fn, ws, lo, instr, kinds=None):
        d.append(f"pub proof fn {name}(d: int, o: DsView)")
        d.append(f"    requires {lo} <= d <= {lo + len(ws) - 1}")
        if kinds is None:
            d.append(f"    ensures en_row({instr}, 0, o, en_model({fn}(d), o)), !{fn}(d).contains('-')")
        else:
            d.append(f"    ensures en_row({instr}, en_ow_kind_{fn}(d), o, en_model({fn}(d), o)), !{fn}(d).contains('-')")
        d.append("{")
        for i, w in enumerate(ws):
            d.append(f"    if d == {lo + i} {{ en_rows_{modof[w]}::lemma_en_row_{wname(w)}(o); }}")
        d.append("}")
    disp("lemma_en_unit", "en_unit_w", [x[0] for x in u], 1, "EnI::Unit((48 + d) as u8)")
    disp("lemma_en_teen", "en_teen_w", [x[0] for x in teens], 0, "EnI::Two(49u8, (48 + d) as u8)")
    disp("lemma_en_tens", "en_tens_w", [x[0] for x in tens], 2, "EnI::Two((48 + d) as u8, 48u8)")
    d.append("pub open spec fn en_ow_kind_en_unit_ow(d: int) -> int { if d == 1 { 3 } else if d == 2 { 4 } else if d == 3 { 5 } else { 1 } }")
    d.append("pub open spec fn en_ow_kind_en_teen_ow(d: int) -> int { 1 }")
    d.append("pub open spec fn en_ow_kind_en_tens_ow(d: int) -> int { 1 }")
    disp("lemma_en_unit_o", "en_unit_ow", [x[1] for x in u], 1, "EnI::Unit((48 + d) as u8)", kinds=True)
    disp("lemma_en_teen_o", "en_teen_ow", [x[1] for x in teens], 0, "EnI::Two(49u8, (48 + d) as u8)", kinds=True)
    disp("lemma_en_tens_o", "en_tens_ow", [x[1] for x in tens], 2, "EnI::Two((48 + d) as u8, 48u8)", kinds=True)
    for cw, ow, k, base in scales:
        d.append(f"pub proof fn lemma_en_scale_{cw}(o: DsView) ensures en_row(EnI::{k}, 0, o, en_model({W(cw)}, o)), !{W(cw)}.contains('-'), en_row(EnI::{k}, 1, o, en_model({W(ow)}, o)), !{W(ow)}.contains('-') {{ en_rows_{modof[cw]}::lemma_en_row_{wname(cw)}(o); en_rows_{modof[ow]}::lemma_en_row_{wname(ow)}(o); }}")
    d.append(f"pub proof fn lemma_en_and(o: DsView) ensures en_model({W('and')}, o) == (if size_of(o) >= 2 {{ err_res(o, Error::Incomplete) }} else {{ err_res(o, Error::NaN) }}), !{W('and')}.contains('-') {{ en_rows_{modof['and']}::lemma_en_row_and(o); }}")
    d.append(f"pub proof fn lemma_en_point(o: DsView) ensures en_model({W('point')}, o) == err_res(o, Error::NaN), !{W('point')}.contains('-') {{ en_rows_{modof['point']}::lemma_en_row_point(o); }}")
    d.append(f"pub proof fn lemma_en_zero(o: DsView) ensures en_row(EnI::Zero, 0, o, en_model({W('zero')}, o)), !{W('zero')}.contains('-') {{ en_rows_{modof['zero']}::lemma_en_row_zero(o); }}")
    open(os.path.join(T, "en_dispatch.inc"), "w", encoding="utf-8").write("\n".join(d) + "\n")
    print(c + ":", len(arms), "arms,", len(rows), "rows,", len(allwords), "words")


# ------------------------------------------------------------------ Spanish
def spanish():
    c = "es"
    arms = load_arms(c)
    emit_model(c, arms, "arm-level model of Spanish::apply: the match on the lemma (layer L3a)")
    rows = []

    def add(w, digits, kind):
        # kind: "c" cardinal, "o" ordinal masc sing, "a" fem sing, "os"/"as" plural ordinals, "f" fraction (-avo), "ap" apocopated ordinal
        mk = {"c": None, "o": "º", "a": "ª", "os": "ᵒˢ", "as": "ᵃˢ", "ap": ".ᵉʳ", "f": None}[kind]
        expect = ("1/" + digits) if kind == "f" else digits + (mk or "")
        rows.append({"word": w, "digits": digits, "kind": kind, "marker": mk, "expect": expect,
                     "desc": f"put {digits}" + (f", marker `{mk}`" if mk else "") + (" (fraction)" if kind == "f" else "")})
    card = {"cero": "0", "un": "1", "uno": "1", "una": "1", "dos": "2", "tres": "3", "cuatro": "4", "cinco": "5", "seis": "6", "siete": "7", "ocho": "8",
            "nueve": "9", "diez": "10", "once": "11", "doce": "12", "trece": "13", "catorce": "14", "quince": "15", "dieciséis": "16", "dieciseis": "16",
            "diecisiete": "17", "dieciocho": "18", "diecinueve": "19", "veinte": "20", "veintiuno": "21", "veintiuna": "21", "veintiún": "21", "veintidós": "22", "veintitrés": "23", "veintidos": "22", "veintitres": "23",
            "veinticuatro": "24", "veinticinco": "25", "veintiséis": "26", "veintisiete": "27", "veintiocho": "28", "veintinueve": "29", "treinta": "30",
            "cuarenta": "40", "cincuenta": "50", "sesenta": "60", "setenta": "70", "ochenta": "80", "noventa": "90", "cien": "100", "ciento": "100",
            "doscientos": "200", "doscientas": "200", "trescientos": "300", "trescientas": "300", "cuatrocientos": "400", "cuatrocientas": "400",
            "quinientos": "500", "quinientas": "500", "seiscientos": "600", "seiscientas": "600", "setecientos": "700", "setecientas": "700",
            "ochocientos": "800", "ochocientas": "800", "novecientos": "900", "novecientas": "900"}
    for w, d in card.items():
        add(w, d, "c")
    ords = {"primero": "1", "segundo": "2", "tercero": "3", "cuarto": "4", "quinto": "5", "sexto": "6", "séptimo": "7", "octavo": "8", "noveno": "9",
            "décimo": "10", "undécimo": "11", "duodécimo": "12", "decimotercero": "13", "decimocuarto": "14", "decimoquinto": "15", "decimosexto": "16",
            "decimoséptimo": "17", "decimoctavo": "18", "decimonoveno": "19", "vigésimo": "20", "trigésimo": "30", "cuadragésimo": "40",
            "quincuagésimo": "50", "sexagésimo": "60", "septuagésimo": "70", "octogésimo": "80", "nonagésimo": "90", "centésimo": "100",
            "ducentésimo": "200", "tricentésimo": "300", "cuadringentésimo": "400", "quingentésimo": "500", "sexcentésimo": "600",
            "septingentésimo": "700", "octingentésimo": "800", "noningentésimo": "900"}
    for w, d in ords.items():
        add(w, d, "o")
        add(w[:-1] + "a", d, "a")
        add(w + "s", d, "os")
        add(w[:-1] + "as", d, "as")
    add("primer", "1", "ap")
    add("tercer", "3", "ap")
    fr = {"onceavo": "11", "doceavo": "12", "treceavo": "13", "catorceavo": "14", "quinceavo": "15", "veinteavo": "20", "treintavo": "30", "centavo": "100"}
    for w, d in fr.items():
        add(w, d, "f")

    # python mirror of the string-level functions (used only to state what the closed computations must return)
    def lemma_of(w):
        if (w.endswith("os") and w not in ("dos", "veintidos")) or w.endswith("as"):
            return w.rstrip("s")
        if w.endswith("es") and w not in ("tres", "veintitres"):
            x = w
            while x.endswith("es"):
                x = x[:-2]
            return x
        return w

    def marker_kind(w):
        sing = lemma_of(w)
        while sing.startswith("decimo"):
            sing = sing[len("decimo"):]
        plur = w.endswith("s")
        if sing in ("primer", "tercer"):
            return 1
        if sing in ("primero", "segundo", "tercero", "cuarto", "quinto", "sexto", "séptimo", "octavo", "ctavo", "noveno"):
            return 3 if plur else 2
        if sing in ("primera", "segunda", "tercera", "cuarta", "quinta", "sexta", "séptima", "octava", "ctava", "novena"):
            return 5 if plur else 4
        if sing.endswith("imo"):
            return 3 if plur else 2
        if sing.endswith("ima"):
            return 5 if plur else 4
        if sing.endswith("avo"):
            return 6
        return 0
    WANT = {None: 0, ".ᵉʳ": 1, "º": 2, "ᵒˢ": 3, "ª": 4, "ᵃˢ": 5}

    def word_facts(r):
        w = r["word"]
        l = lemma_of(w)
        k = marker_kind(w)
        ens = f"es_lemma({W(w)}) == {W(l)}, es_marker_kind({W(w)}) == {k}"
        asserts = [f"assert(es_lemma({W(w)}) =~= {W(l)}) by(compute_only);", f"assert(es_marker_kind({W(w)}) == {k}) by(compute_only);"]
        return ens, asserts, l

    rows.append({"word": ",", "digits": "", "kind": "comma", "marker": None, "expect": None, "desc": "a comma is never a number word (it ends the number in progress)"})
    rows.append({"word": "y", "digits": "", "kind": "link", "marker": None, "expect": None, "desc": "the conjunction: a link word once the number has two digits, not a number word otherwise"})
    rows.append({"word": "coma", "digits": "", "kind": "sep", "marker": None, "expect": None, "desc": "the decimal separator is not a number word: refused outright, the digits untouched"})
    for w_, p_ in (("mil", 3), ("millón", 6), ("millon", 6), ("millones", 6)):
        rows.append({"word": w_, "digits": "", "kind": "scale", "p": p_, "k": 0, "marker": None, "expect": "1" + "0" * p_, "desc": f"multiplies the last group by 10^{p_} (implicit one on an empty group)"})
    for w_, k_, mk_ in (("milésimo", 2, "º"), ("milésimos", 3, "ᵒˢ"), ("milésima", 4, "ª"), ("milésimas", 5, "ᵃˢ")):
        rows.append({"word": w_, "digits": "", "kind": "scale", "p": 3, "k": k_, "marker": mk_, "expect": "1000" + mk_, "desc": f"ordinal thousand, marker `{mk_}`"})

    def row_stmt(r):
        if r["word"] == ",":
            return f"!es_model({W(',')}, o).ok && !(es_model({W(',')}, o).err is Incomplete)"
        if r["kind"] == "sep":
            return f"!es_model({W(r['word'])}, o).ok && !(es_model({W(r['word'])}, o).err is Incomplete) && core_same(es_model({W(r['word'])}, o).v, o)"
        if r["kind"] == "link":
            return f"(o.marker is None) ==> es_model({W(r['word'])}, o) == (if size_of(o) >= 2 {{ err_res(o, Error::Incomplete) }} else {{ err_res(o, Error::NaN) }})"
        if r["kind"] == "scale":
            return f"es_scale_row({r['p']}, {r['k']}, o, es_model({W(r['word'])}, o))"
        want = 6 if r["kind"] == "f" else WANT[r["marker"]]
        unit_guarded = r["kind"] == "c" and len(r["digits"]) == 1 and r["digits"] != "0"
        needs_ord = lemma_of(r["word"]) == "segundo"   # "segundo" is also the time unit: only read as 2 inside an ordinal
        return f"es_row({digs(r['digits'])}, {want}, {'true' if unit_guarded else 'false'}, {'true' if needs_ord else 'false'}, o, es_model({W(r['word'])}, o))"
    extra = ["decimo", "imo", "ima", "avo", "os", "as", "es", "dos", "tres", "primer", "primero", "segundo", "tercero", "cuarto", "quinto", "sexto", "séptimo",
             "octavo", "ctavo", "noveno", "tercer", "primera", "segunda", "tercera", "cuarta", "quinta", "sexta", "séptima", "octava", "ctava", "novena", "coma", ""]
    allwords = set(w for ws, _, _ in arms for w in ws) | set(r["word"] for r in rows) | set(lemma_of(r["word"]) for r in rows) | set(extra)
    ARMS_CURRENT[:] = arms
    inner = emit_rows(c, rows, word_facts, row_stmt)
    emit_words(c, allwords, inner, arms)
    # dispatch lemmas for the spelling driver: the row of a word chosen by its value
    modof = {r["word"]: k % 8 for k, r in enumerate(rows)}
    d = ["// generated by tools/gen_lang.py: words of the Spanish speller chosen by value, with their grammar rows (used by es_driver.inc)"]
    small = {1: "uno", 2: "dos", 3: "tres", 4: "cuatro", 5: "cinco", 6: "seis", 7: "siete", 8: "ocho", 9: "nueve", 10: "diez", 11: "once", 12: "doce",
             13: "trece", 14: "catorce", 15: "quince", 16: "dieciséis", 17: "diecisiete", 18: "dieciocho", 19: "diecinueve", 20: "veinte", 21: "veintiuno",
             22: "veintidós", 23: "veintitrés", 24: "veinticuatro", 25: "veinticinco", 26: "veintiséis", 27: "veintisiete", 28: "veintiocho", 29: "veintinueve"}
    tens_w = {3: "treinta", 4: "cuarenta", 5: "cincuenta", 6: "sesenta", 7: "setenta", 8: "ochenta", 9: "noventa"}
    hund = {1: "ciento", 2: "doscientos", 3: "trescientos", 4: "cuatrocientos", 5: "quinientos", 6: "seiscientos", 7: "setecientos", 8: "ochocientos", 9: "novecientos"}
    d.append("/// the one-word numbers 1..29; `apo`: the apocopated form before a noun or a scale word (un, veintiún)")
    d.append("pub open spec fn es_small_w(r: int, apo: bool) -> Seq<char> { if r == 1 { if apo { " + W("un") + " } else { " + W("uno") + " } } else if r == 21 { if apo { " + W("veintiún") + " } else { " + W("veintiuno") + " } } else "
             + " else ".join(f"if r == {k} {{ {W(w)} }}" for k, w in small.items() if k not in (1, 21, 29)) + " else { " + W(small[29]) + " } }")
    d.append("pub open spec fn es_tens_w(t: int) -> Seq<char> { " + " else ".join(f"if t == {k} {{ {W(w)} }}" for k, w in tens_w.items() if k != 9) + " else { " + W(tens_w[9]) + " } }")
    d.append("/// the hundreds words; `exact`: the number of the group is exactly 100 (cien)")
    d.append("pub open spec fn es_hund_w(h: int, exact: bool) -> Seq<char> { if h == 1 { if exact { " + W("cien") + " } else { " + W("ciento") + " } } else "
             + " else ".join(f"if h == {k} {{ {W(w)} }}" for k, w in hund.items() if k not in (1, 9)) + " else { " + W(hund[9]) + " } }")
    d.append("pub open spec fn es_small_d(r: int) -> Seq<u8> { if r < 10 { d1((48 + r) as u8) } else { d2((48 + r / 10) as u8, (48 + r % 10) as u8) } }")
    d.append("pub proof fn lemma_es_small(r: int, apo: bool, o: DsView)")
    d.append("    requires 1 <= r <= 29")
    d.append("    ensures es_row(es_small_d(r), 0, r < 10, false, o, es_model(es_small_w(r, apo), o))")
    d.append("{")
    d.append("    reveal(d1); reveal(d2);")
    for k, w in small.items():
        ws_ = [w] if k not in (1, 21) else ([w, "un"] if k == 1 else [w, "veintiún"])
        d.append(f"    if r == {k} {{ " + " ".join(f"es_rows_{modof[x]}::lemma_es_row_{wname(x)}(o);" for x in ws_) + f" assert(es_small_d(r) =~= {digs(str(k))}); }}")
    d.append("}")
    d.append("pub proof fn lemma_es_tens(t: int, o: DsView)")
    d.append("    requires 3 <= t <= 9")
    d.append("    ensures es_row(d2((48 + t) as u8, 48u8), 0, false, false, o, es_model(es_tens_w(t), o))")
    d.append("{")
    for k, w in tens_w.items():
        d.append(f"    if t == {k} {{ es_rows_{modof[w]}::lemma_es_row_{wname(w)}(o); }}")
    d.append("}")
    d.append("pub proof fn lemma_es_hund(h: int, exact: bool, o: DsView)")
    d.append("    requires 1 <= h <= 9")
    d.append("    ensures es_row(d3((48 + h) as u8, 48u8, 48u8), 0, false, false, o, es_model(es_hund_w(h, exact), o))")
    d.append("{")
    for k, w in hund.items():
        ws_ = [w] if k != 1 else [w, "cien"]
        d.append(f"    if h == {k} {{ " + " ".join(f"es_rows_{modof[x]}::lemma_es_row_{wname(x)}(o);" for x in ws_) + " }")
    d.append("}")
    d.append(f"pub proof fn lemma_es_y(o: DsView) requires o.marker is None ensures es_model({W('y')}, o) == (if size_of(o) >= 2 {{ err_res(o, Error::Incomplete) }} else {{ err_res(o, Error::NaN) }}) {{ es_rows_{modof['y']}::lemma_es_row_y(o); }}")
    d.append(f"pub proof fn lemma_es_mil(o: DsView) ensures es_scale_row(3, 0, o, es_model({W('mil')}, o)) {{ es_rows_{modof['mil']}::lemma_es_row_mil(o); }}")
    d.append(f"pub proof fn lemma_es_millon(o: DsView) ensures es_scale_row(6, 0, o, es_model({W('millón')}, o)), es_scale_row(6, 0, o, es_model({W('millones')}, o)) {{ es_rows_{modof['millón']}::lemma_es_row_{wname('millón')}(o); es_rows_{modof['millones']}::lemma_es_row_millones(o); }}")
    d.append(f"pub proof fn lemma_es_coma(o: DsView) ensures !es_model({W('coma')}, o).ok, core_same(es_model({W('coma')}, o).v, o), {W('y')} != {W('coma')} {{ es_rows_{modof['coma']}::lemma_es_row_coma(o); es_ne_coma(); }}")
    d.append(f"pub proof fn lemma_es_cero(o: DsView) ensures es_row(d1(48u8), 0, false, false, o, es_model({W('cero')}, o)) {{ es_rows_{modof['cero']}::lemma_es_row_cero(o); }}")
    # ordinals: value -> base word (masculine singular); the four gender/number forms are kinds 2 (º), 3 (ᵒˢ), 4 (ª), 5 (ᵃˢ)
    ovals = {int(v): w for w, v in ords.items()}
    def forms(w):
        return {2: w, 3: w + "s", 4: w[:-1] + "a", 5: w[:-1] + "as"}
    d.append("/// the ordinal word of value v (1..20, 30..90, 100..900) in the gender/number form k (2: -o, 3: -os, 4: -a, 5: -as)")
    body = []
    for v in sorted(ovals):
        f = forms(ovals[v])
        body.append(f"if v == {v} {{ if k == 2 {{ {W(f[2])} }} else if k == 3 {{ {W(f[3])} }} else if k == 4 {{ {W(f[4])} }} else {{ {W(f[5])} }} }}")
    d.append("#[verifier::opaque] pub open spec fn es_ord_w(v: int, k: int) -> Seq<char> { " + " else ".join(body) + " else { " + W("milésimo") + " } }")
    d.append("pub open spec fn es_ord_val(v: int) -> bool { (1 <= v <= 20) || (v % 10 == 0 && 30 <= v <= 90) || (v % 100 == 0 && 100 <= v <= 900) }")
    d.append("pub open spec fn es_ord_d(v: int) -> Seq<u8> { if v < 10 { d1((48 + v) as u8) } else if v < 100 { d2((48 + v / 10) as u8, (48 + v % 10) as u8) } else { d3((48 + v / 100) as u8, 48u8, 48u8) } }")
    d.append("pub proof fn lemma_es_ord(v: int, k: int, o: DsView)")
    d.append("    requires es_ord_val(v), 2 <= k <= 5")
    d.append("    ensures es_row(es_ord_d(v), k, false, v == 2 && k <= 3, o, es_model(es_ord_w(v, k), o))")
    d.append("{")
    d.append("    reveal(d1); reveal(d2); reveal(d3); reveal(es_ord_w);")
    for v in sorted(ovals):
        f = forms(ovals[v])
        d.append(f"    if v == {v} {{ assert(es_ord_d(v) =~= {digs(str(v))}); " + " ".join(f"if k == {kk} {{ es_rows_{modof[f[kk]]}::lemma_es_row_{wname(f[kk])}(o); }}" for kk in (2, 3, 4, 5)) + " }")
    d.append("}")
    mf = forms("milésimo")
    d.append("pub open spec fn es_mil_ow(k: int) -> Seq<char> { " + f"if k == 2 {{ {W(mf[2])} }} else if k == 3 {{ {W(mf[3])} }} else if k == 4 {{ {W(mf[4])} }} else {{ {W(mf[5])} }}" + " }")
    d.append("pub proof fn lemma_es_mil_o(k: int, o: DsView) requires 2 <= k <= 5 ensures es_scale_row(3, k, o, es_model(es_mil_ow(k), o)) { "
             + " ".join(f"if k == {kk} {{ es_rows_{modof[mf[kk]]}::lemma_es_row_{wname(mf[kk])}(o); }}" for kk in (2, 3, 4, 5)) + " }")
    open(os.path.join(T, "es_dispatch.inc"), "w", encoding="utf-8").write("\n".join(d) + "\n")
    for r in rows:
        if lemma_of(r["word"]) == "segundo":
            r["expect"] = None   # not a number on its own (time unit "segundo")
    json.dump(rows, open(os.path.join(T, f"{c}_rows.json"), "w", encoding="utf-8"), ensure_ascii=False)
    print(c + ":", len(arms), "arms,", len(rows), "rows,", len(allwords), "words")


# ------------------------------------------------------------------ French
def french():
    c = "fr"
    arms = load_arms(c)
    emit_model(c, arms, "arm-level model of French::apply for a word without hyphen: (outcome, words blocked for the next word) (layer L3a)",
               extra_params=", blocked: u64", ret="(ApRes, u64)", default="(err_res(o, Error::NaN), 0u64)")
    rows = []

    def add(w, kind, digits, expect, desc):
        rows.append({"word": w, "kind": kind, "digits": digits, "expect": expect, "desc": desc})
    # cardinals and their -ième ordinals
    units = [("un", "unième", "1"), ("deux", "deuxième", "2"), ("trois", "troisième", "3"), ("quatre", "quatrième", "4"), ("cinq", "cinquième", "5"),
             ("six", "sixième", "6"), ("sept", "septième", "7"), ("huit", "huitième", "8"), ("neuf", "neuvième", "9")]
    blockbit = {"1": 1, "2": 2, "3": 4, "4": 8, "5": 16, "6": 32}
    add("zéro", "put", "0", "0", "put 0")
    for cw, ow, d in units:
        add(cw, "unit", d, d, f"unit {d} (refused right after a ten that forms a compound with it)")
        add(ow, "unit", d, d + "ème", f"unit {d}, ordinal")
        add(ow + "s", "unit", d, d + "èmes", f"unit {d}, plural ordinal")
    add("premier", "first", "1", "1er", "1, ordinal (only as a number of its own)")
    add("première", "first", "1", "1ère", "1, ordinal feminine")
    add("premiers", "first", "1", "1ers", "1, ordinal plural")
    add("premières", "first", "1", "1ères", "1, ordinal feminine plural")
    teens = [("dix", "dixième", "10"), ("onze", "onzième", "11"), ("douze", "douzième", "12"), ("treize", "treizième", "13"), ("quatorze", "quatorzième", "14"),
             ("quinze", "quinzième", "15"), ("seize", "seizième", "16")]
    for cw, ow, d in teens:
        add(cw, "teen", d, d, f"{d}; after soixante / quatre-vingt it makes 7x / 9x")
        add(ow, "teen", d, d + "ème", f"{d}, ordinal")
    tens = [("trente", "trentième", "30"), ("quarante", "quarantième", "40"), ("cinquante", "cinquantième", "50"), ("soixante", "soixantième", "60"),
            ("septante", "septantième", "70"), ("huitante", "huitantième", "80"), ("octante", "octantième", "80"), ("nonante", "nonantième", "90")]
    for cw, ow, d in tens:
        add(cw, "ten", d, d, f"ten {d}")
        add(ow, "ten", d, d + "ème", f"ten {d}, ordinal")
    add("vingt", "vingt", "20", "20", "20, or 80 after quatre")
    add("vingts", "vingt", "20", "20", "20 (plural as in quatre-vingts)")
    add("vingtième", "vingt", "20", "20ème", "20, ordinal")
    for cw, k, exp in [("cent", "cent", "100"), ("cents", "cent", "100"), ("centième", "cent", "100ème"), ("mille", "mille", "1000"), ("mil", "mille", "1000"),
                       ("millième", "mille", "1000ème"), ("million", "million", "1000000"), ("millions", "million", "1000000"),
                       ("millionième", "million", "1000000ème"), ("milliard", "milliard", "1000000000"), ("milliards", "milliard", "1000000000"),
                       ("milliardième", "milliard", "1000000000ème")]:
        add(cw, k, "", exp, k)

    add("et", "et", "", None, "`et` links a round ten to un / onze; after a ten said with dix (10, 70, 90) it ends the number")
    add("virgule", "sep", "", None, "the decimal separator is not a number word: refused outright, the digits untouched")

    def lemma_of(w):
        return w.rstrip("s") if (w.endswith("s") and w != "trois") else w

    def marker_kind(w):
        for k, sfx in [(1, "ème"), (2, "èmes"), (3, "ier"), (4, "iers"), (5, "ière"), (6, "ières")]:
            if w.endswith(sfx):
                return k
        return 0

    def word_facts(r):
        w = r["word"]
        l = lemma_of(w)
        k = marker_kind(w)
        ens = f"fr_lemma({W(w)}) == {W(l)}, fr_marker_kind({W(w)}) == {k}, no_dash_from({W(w)}, 0)"
        asserts = [f"assert(no_dash_from({W(w)}, 0)) by(compute_only);", f"assert(fr_lemma({W(w)}) =~= {W(l)}) by(compute_only);", f"assert(fr_marker_kind({W(w)}) == {k}) by(compute_only);"]
        return ens, asserts, l

    rows.append({"word": ",", "kind": "comma", "digits": "", "expect": None, "desc": "a comma is never a number word (it ends the number in progress)"})

    def row_stmt(r):
        if r["word"] == ",":
            return f"!fr_model({W(',')}, o).ok && !(fr_model({W(',')}, o).err is Incomplete)"
        return row_stmt0(r) + f", !{W(r['word'])}.contains('-')"

    def row_stmt0(r):
        k = marker_kind(r["word"])
        kind = r["kind"]
        if kind in ("put", "ten"):
            return f"fr_row_put({digs(r['digits'])}, {k}, {1 if kind == 'ten' else 0}, o, fr_model({W(r['word'])}, o))"
        if kind == "unit":
            bit = blockbit.get(r["digits"], 0)
            return f"fr_row_unit({digs(r['digits'])}, {k}, {bit}, o, fr_model({W(r['word'])}, o))"
        if kind == "first":
            return f"fr_row_first({k}, o, fr_model({W(r['word'])}, o))"
        if kind == "teen":
            return f"fr_row_teen({ord(r['digits'][1])}u8, {k}, {63 if r['digits'] == '10' else 0}, o, fr_model({W(r['word'])}, o))"
        if kind == "vingt":
            return f"fr_row_vingt({k}, o, fr_model({W(r['word'])}, o))"
        if kind == "sep":
            return f"!fr_model({W(r['word'])}, o).ok && !(fr_model({W(r['word'])}, o).err is Incomplete) && core_same(fr_model({W(r['word'])}, o).v, o)"
        if kind == "et":
            return f"fr_row_et(o, fr_model({W(r['word'])}, o))"
        return f"fr_row_scale({ {'cent': 2, 'mille': 3, 'million': 6, 'milliard': 9}[kind] }, {k}, o, fr_model({W(r['word'])}, o))"
    extra = ["trois", "ème", "èmes", "ier", "iers", "ière", "ières", "er", "ers", "ère", "ères", "virgule", "neuf", "un", "le", "du", "l'", "numéro", "-", ""]
    allwords = set(w for ws, _, _ in arms for w in ws) | set(r["word"] for r in rows) | set(lemma_of(r["word"]) for r in rows) | set(extra)
    ARMS_CURRENT[:] = arms
    inner = emit_rows(c, rows, word_facts, row_stmt, row_extra=lambda r: f"lemma_no_dash({W(r['word'])}, 0);")
    emit_words(c, allwords, inner, arms)
    json.dump(rows, open(os.path.join(T, f"{c}_rows.json"), "w", encoding="utf-8"), ensure_ascii=False)
    # dispatch lemmas for the spelling driver
    modof = {r["word"]: k % 8 for k, r in enumerate(rows)}
    byw = {r["word"]: r for r in rows}
    d = ["// generated by tools/gen_lang.py: words of the French speller chosen by value, with their grammar rows (used by fr_driver.inc)"]

    def sel(name, doc, ws, lo):
        d.append(f"/// {doc}")
        d.append(f"pub open spec fn {name}(d: int) -> Seq<char> {{ " + " else ".join(f"if d == {lo + i} {{ {W(w)} }}" for i, w in enumerate(ws[:-1])) + f" else {{ {W(ws[-1])} }} }}")

    def disp(name, fn, ws, lo, stmt):
        d.append(f"pub proof fn {name}(d: int, o: DsView)")
        d.append(f"    requires {lo} <= d <= {lo + len(ws) - 1}")
        d.append(f"    ensures {stmt}, !{fn}(d).contains('-')")
        d.append("{")
        d.append("    reveal(d1); reveal(d2);")
        for i, w in enumerate(ws):
            d.append(f"    if d == {lo + i} {{ {c}_rows_{modof[w]}::lemma_{c}_row_{wname(w)}(o); }}")
        d.append("}")
    uw = [x[0] for x in units]
    sel("fr_unit_w", "cardinal word of the digit d in 1..9", uw, 1)
    d.append("/// blocking flag of the units un..six (0: sept, huit, neuf are never blocked)")
    d.append("pub open spec fn fr_bit(d: int) -> u64 { if d == 1 { 1 } else if d == 2 { 2 } else if d == 3 { 4 } else if d == 4 { 8 } else if d == 5 { 16 } else if d == 6 { 32 } else { 0 } }")
    disp("lemma_fr_unit", "fr_unit_w", uw, 1, "fr_row_unit(d1((48 + d) as u8), 0, fr_bit(d), o, fr_model(fr_unit_w(d), o))")
    tw = [x[0] for x in teens]
    sel("fr_teen_w", "dix .. seize: the word of 10 + d, d in 0..6", tw, 0)
    disp("lemma_fr_teen", "fr_teen_w", tw, 0, "fr_row_teen((48 + d) as u8, 0, if d == 0 { 63u64 } else { 0u64 }, o, fr_model(fr_teen_w(d), o))")
    tn = ["trente", "quarante", "cinquante", "soixante"]
    sel("fr_tens_w", "trente .. soixante: the word of 10 * d, d in 3..6", tn, 3)
    disp("lemma_fr_tens", "fr_tens_w", tn, 3, "fr_row_put(d2((48 + d) as u8, 48u8), 0, 1, o, fr_model(fr_tens_w(d), o))")

    def one(name, w):
        d.append(f"pub proof fn {name}(o: DsView) ensures {row_stmt(byw[w])} {{ {c}_rows_{modof[w]}::lemma_{c}_row_{wname(w)}(o); }}")
    for nm, w in [("lemma_fr_vingt", "vingt"), ("lemma_fr_vingts", "vingts"), ("lemma_fr_cent", "cent"), ("lemma_fr_cents", "cents"), ("lemma_fr_mille", "mille"),
                  ("lemma_fr_million", "million"), ("lemma_fr_millions", "millions"), ("lemma_fr_milliard", "milliard"), ("lemma_fr_milliards", "milliards"),
                  ("lemma_fr_et", "et"), ("lemma_fr_zero", "zéro"), ("lemma_fr_virgule", "virgule")]:
        one(nm, w)
    # ordinal counterparts of the words a cardinal can end with (for the ordinal theorem: last word swapped)
    pairs = [(cw, ow) for cw, ow, _ in units] + [(cw, ow) for cw, ow, _ in teens] + [(cw, ow) for cw, ow, _ in tens if cw in ("trente", "quarante", "cinquante", "soixante")] \
        + [("vingt", "vingtième"), ("vingts", "vingtième"), ("cent", "centième"), ("cents", "centième"), ("mille", "millième")]
    d.append("/// the -ième form of a word a cardinal can end with (any other word: itself)")
    d.append("pub open spec fn fr_ord_form(w: Seq<char>) -> Seq<char> { " + " else ".join(f"if w == {W(cw)} {{ {W(ow)} }}" for cw, ow in pairs) + " else { w } }")
    d.append("pub open spec fn fr_ends_card(w: Seq<char>) -> bool { " + " || ".join(f"w == {W(cw)}" for cw, ow in pairs) + " }")
    d.append("/// a cardinal's last word and its -ième form have the same grammar row but for the marker: where the one is accepted so is the other,")
    d.append("/// with the same digits and flags, the ordinal marker set and the number closed")
    d.append("pub proof fn lemma_fr_ord_swap(w: Seq<char>, o: DsView)")
    d.append("    requires fr_ends_card(w), fr_model(w, o).ok")
    d.append("    ensures fr_model(fr_ord_form(w), o).ok, !fr_ord_form(w).contains('-'),")
    d.append("            same(fr_model(fr_ord_form(w), o).v, DsView { marker: fr_marker_of_kind(1), frozen: true, ..fr_model(w, o).v })")
    d.append("{")
    for cw, ow in pairs:
        d.append(f"    if w == {W(cw)} {{ {c}_rows_{modof[cw]}::lemma_{c}_row_{wname(cw)}(o); {c}_rows_{modof[ow]}::lemma_{c}_row_{wname(ow)}(o); fr_ne_{wname(lemma_of(cw))}(); }}")
    d.append("}")
    d.append("pub proof fn lemma_fr_card_plain(w: Seq<char>) requires fr_ends_card(w) ensures !w.contains('-') {")
    for cw, ow in pairs:
        d.append(f"    if w == {W(cw)} {{ {c}_rows_{modof[cw]}::lemma_{c}_row_{wname(cw)}(fresh_view()); }}")
    d.append("}")
    d.append(f"pub proof fn lemma_fr_premier(o: DsView) ensures {row_stmt(byw['premier'])} {{ {c}_rows_{modof['premier']}::lemma_{c}_row_premier(o); }}")
    d.append(f"pub proof fn lemma_fr_link_sep() ensures {W('et')} != {W('virgule')} {{ fr_ne_virgule(); }}")
    open(os.path.join(T, "fr_dispatch.inc"), "w", encoding="utf-8").write("\n".join(d) + "\n")
    print(c + ":", len(arms), "arms,", len(rows), "rows,", len(allwords), "words")


# ------------------------------------------------------------------ Portuguese
def portuguese():
    c = "pt"
    arms = load_arms(c)
    emit_model(c, arms, "arm-level model of Portuguese::apply: the match on the lemma -> (outcome, restrictions for the next word) (layer L3a)",
               extra_params=", only_multipliers: bool, smaller_blocked: bool", ret="(ApRes, u64)", default="(err_res(o, Error::NaN), 0u64)")
    rows = []

    def add(w, cls, digits, mk, desc=None):
        rows.append({"word": w, "cls": cls, "digits": digits, "marker": mk, "expect": digits + (mk or ""), "desc": desc or f"{cls} {digits}" + (f", marker `{mk}`" if mk else "")})
    add("zero", "zero", "0", None)
    units = {"um": "1", "dois": "2", "duas": "2", "três": "3", "quatro": "4", "cinco": "5", "seis": "6", "sete": "7", "oito": "8", "nove": "9"}
    for w, d in units.items():
        add(w, "unit", d, None)
    teens = {"dez": "10", "onze": "11", "doze": "12", "treze": "13", "catorze": "14", "quatorze": "14", "quinze": "15", "dezasseis": "16", "dezesseis": "16",
             "dezassete": "17", "dezessete": "17", "dezoito": "18", "dezanove": "19", "dezenove": "19", "vinte": "20", "trinta": "30", "quarenta": "40",
             "cinquenta": "50", "sessenta": "60", "setenta": "70", "oitenta": "80", "noventa": "90"}
    for w, d in teens.items():
        add(w, "small", d, None)
    add("cem", "cem", "100", None)
    hundreds = {"cento": "100", "duzentos": "200", "duzentas": "200", "trezentos": "300", "trezentas": "300", "quatrocentos": "400", "quatrocentas": "400",
                "quinhentos": "500", "quinhentas": "500", "seiscentos": "600", "seiscentas": "600", "setecentos": "700", "setecentas": "700",
                "oitocentos": "800", "oitocentas": "800", "novecentos": "900", "novecentas": "900"}
    for w, d in hundreds.items():
        add(w, "hundred", d, None)
    ords = {"primeiro": ("ordunit", "1"), "segundo": ("ordunit", "2"), "terceiro": ("ordunit", "3"), "quarto": ("ordunit", "4"), "quinto": ("ordunit", "5"),
            "sexto": ("ordunit", "6"), "sétimo": ("ordunit", "7"), "oitavo": ("ordunit", "8"), "nono": ("ordnono", "9"), "décimo": ("small", "10"),
            "vigésimo": ("small", "20"), "trigésimo": ("small", "30"), "quadragésimo": ("small", "40"), "quinquagésimo": ("small", "50"),
            "sexagésimo": ("small", "60"), "septuagésimo": ("small", "70"), "octogésimo": ("small", "80"), "nonagésimo": ("small", "90"),
            "centésimo": ("hundred", "100"), "ducentésimo": ("hundred", "200"), "trecentésimo": ("hundred", "300"), "quadringentésimo": ("hundred", "400"),
            "quingentésimo": ("hundred", "500"), "sexcentésimo": ("hundred", "600"), "septingentésimo": ("hundred", "700"), "octingentésimo": ("hundred", "800"),
            "noningentésimo": ("hundred", "900")}
    for w, (cls, d) in ords.items():
        add(w, cls, d, "º")
        add(w[:-1] + "a", cls, d, "ª")
        add(w + "s", cls, d, "ᵒˢ")
        add(w[:-1] + "as", cls, d, "ᵃˢ")
    rows.append({"word": ",", "cls": "comma", "digits": "", "marker": None, "expect": None, "desc": "a comma is never a number word (it ends the number in progress)"})
    rows.append({"word": "e", "cls": "link", "digits": "", "marker": None, "expect": None, "desc": "the conjunction: a link word once the number has two digits (not right after `cem`); it lifts the ban on a following number below one hundred"})
    rows.append({"word": "mil", "cls": "scale", "digits": "", "marker": None, "expect": "1000", "desc": "multiplies the last group by 1000 (implicit one on an empty group; not `um mil`, not `cento mil`)"})
    for w_, mk_ in (("milésimo", "º"), ("milésima", "ª"), ("milésimos", "ᵒˢ"), ("milésimas", "ᵃˢ")):
        rows.append({"word": w_, "cls": "oscale", "digits": "", "marker": mk_, "expect": "1000" + mk_, "desc": f"ordinal thousand, marker `{mk_}`"})
    rows.append({"word": "vírgula", "cls": "sep", "digits": "", "marker": None, "expect": None, "desc": "the decimal separator is not a number word: refused outright, the digits untouched"})

    def strip_all(w, sfx):
        while sfx and w.endswith(sfx):
            w = w[:-len(sfx)]
        return w

    def lemma_of(w):
        if w.endswith("a"):
            return w.rstrip("a")
        if w.endswith("as") and w != "duas":
            return strip_all(w, "as")
        if w.endswith("o") and w != "zero":
            return w.rstrip("o")
        if w.endswith("os"):
            return strip_all(w, "os")
        return w

    def marker_kind(w):
        prob = 1 if w.endswith("a") else 2 if w.endswith("as") else 3 if w.endswith("o") else 4 if w.endswith("os") else 0
        l = lemma_of(w)
        stem = l in ("primeir", "segund", "terceir", "quart", "quint", "sext", "sétim", "oitav", "non") or l.endswith("im")
        return prob if (prob and stem) else 0
    WANT = {None: 0, "ª": 1, "ᵃˢ": 2, "º": 3, "ᵒˢ": 4}

    def word_facts(r):
        w = r["word"]
        l = lemma_of(w)
        k = marker_kind(w)
        ens = f"pt_lemma({W(w)}) == {W(l)}, pt_marker_kind({W(w)}) == {k}"
        asserts = [f"assert(pt_lemma({W(w)}) =~= {W(l)}) by(compute_only);", f"assert(pt_marker_kind({W(w)}) == {k}) by(compute_only);"]
        return ens, asserts, l

    def row_stmt(r):
        if r["word"] == ",":
            return f"!pt_model({W(',')}, o).ok && !(pt_model({W(',')}, o).err is Incomplete)"
        if r["cls"] == "link":
            return f"(o.marker is None) ==> res_same(pt_model({W('e')}, o), pt_fin(if size_of(o) >= 2 && !pt_only_mult(o) {{ err_res(o, Error::Incomplete) }} else {{ err_res(o, Error::NaN) }}, 0, MorphologicalMarker::None))"
        if r["cls"] == "oscale":
            return f"(is_empty_spec(o) || marker_same(pt_marker_of_kind({WANT[r['marker']]}), o.marker)) ==> res_same(pt_model({W(r['word'])}, o), pt_fin(pt_mil_base(o), 0, pt_marker_of_kind({WANT[r['marker']]})))"
        if r["cls"] == "sep":
            return f"!pt_model({W(r['word'])}, o).ok && !(pt_model({W(r['word'])}, o).err is Incomplete) && core_same(pt_model({W(r['word'])}, o).v, o)"
        if r["cls"] == "scale":
            return f"(o.marker is None) ==> res_same(pt_model({W('mil')}, o), pt_fin(pt_mil_base(o), 0, MorphologicalMarker::None))"
        cls = {"zero": 0, "unit": 1, "small": 2, "cem": 3, "hundred": 4, "ordunit": 5, "ordnono": 6}[r["cls"]]
        return f"pt_row({digs(r['digits'])}, {WANT[r['marker']]}, {cls}, o, pt_model({W(r['word'])}, o))"
    extra = ["as", "os", "duas", "zero", "im", "primeir", "segund", "terceir", "quart", "quint", "sext", "sétim", "oitav", "non", "vírgula", ""]
    allwords = set(w for ws, _, _ in arms for w in ws) | set(r["word"] for r in rows) | set(lemma_of(r["word"]) for r in rows) | set(extra)
    ARMS_CURRENT[:] = arms
    inner = emit_rows(c, rows, word_facts, row_stmt)
    emit_words(c, allwords, inner, arms)
    json.dump(rows, open(os.path.join(T, f"{c}_rows.json"), "w", encoding="utf-8"), ensure_ascii=False)
    # dispatch lemmas for the spelling driver
    modof = {r["word"]: k % 8 for k, r in enumerate(rows)}
    d = ["// generated by tools/gen_lang.py: words of the Portuguese speller chosen by value, with their grammar rows (used by pt_driver.inc)"]
    uw = ["um", "dois", "três", "quatro", "cinco", "seis", "sete", "oito", "nove"]
    tw = ["dez", "onze", "doze", "treze", "catorze", "quinze", "dezasseis", "dezassete", "dezoito", "dezanove"]
    nw = ["vinte", "trinta", "quarenta", "cinquenta", "sessenta", "setenta", "oitenta", "noventa"]
    hw = ["cento", "duzentos", "trezentos", "quatrocentos", "quinhentos", "seiscentos", "setecentos", "oitocentos", "novecentos"]

    def sel(name, doc, ws, lo):
        d.append(f"/// {doc}")
        d.append(f"pub open spec fn {name}(d: int) -> Seq<char> {{ " + " else ".join(f"if d == {lo + i} {{ {W(w)} }}" for i, w in enumerate(ws[:-1])) + f" else {{ {W(ws[-1])} }} }}")

    def disp(name, fn, ws, lo, stmt):
        d.append(f"pub proof fn {name}(d: int, o: DsView)")
        d.append(f"    requires {lo} <= d <= {lo + len(ws) - 1}")
        d.append(f"    ensures {stmt}")
        d.append("{")
        d.append("    reveal(d1); reveal(d2); reveal(d3);")
        for i, w in enumerate(ws):
            d.append(f"    if d == {lo + i} {{ {c}_rows_{modof[w]}::lemma_{c}_row_{wname(w)}(o); }}")
        d.append("}")
    sel("pt_unit_w", "cardinal word of the digit d in 1..9", uw, 1)
    disp("lemma_pt_unit", "pt_unit_w", uw, 1, "pt_row(d1((48 + d) as u8), 0, 1, o, pt_model(pt_unit_w(d), o))")
    sel("pt_teen_w", "dez .. dezanove: the word of 10 + d", tw, 0)
    disp("lemma_pt_teen", "pt_teen_w", tw, 0, "pt_row(d2(49u8, (48 + d) as u8), 0, 2, o, pt_model(pt_teen_w(d), o))")
    sel("pt_tens_w", "vinte .. noventa: the word of 10 * d", nw, 2)
    disp("lemma_pt_tens", "pt_tens_w", nw, 2, "pt_row(d2((48 + d) as u8, 48u8), 0, 2, o, pt_model(pt_tens_w(d), o))")
    sel("pt_hund_w", "cento, duzentos .. novecentos: the word of 100 * d", hw, 1)
    disp("lemma_pt_hund", "pt_hund_w", hw, 1, "pt_row(d3((48 + d) as u8, 48u8, 48u8), 0, 4, o, pt_model(pt_hund_w(d), o))")
    byw = {r["word"]: r for r in rows}
    idx = {r["word"]: k for k, r in enumerate(rows)}
    d.append(f"pub proof fn lemma_pt_link_sep() ensures {W('e')} != {W('vírgula')} {{ lemma_pt_word_{idx['vírgula']}(); lemma_pt_word_{idx['e']}(); pt_ne_{wname(lemma_of('vírgula'))}(); }}")
    for nm, w in [("lemma_pt_cem", "cem"), ("lemma_pt_e", "e"), ("lemma_pt_mil", "mil"), ("lemma_pt_zero", "zero"), ("lemma_pt_virgula", "vírgula")]:
        d.append(f"pub proof fn {nm}(o: DsView) ensures {row_stmt(byw[w])} {{ {c}_rows_{modof[w]}::lemma_{c}_row_{wname(w)}(o); }}")
    # ordinals: value -> base word (masculine singular); forms k = 3 (-o), 4 (-os), 1 (-a), 2 (-as)
    ovals = {int(v): (w, cls_) for w, (cls_, v) in ords.items()}
    CLSN = {"ordunit": 5, "ordnono": 6, "small": 2, "hundred": 4}

    def forms(w):
        return {3: w, 4: w + "s", 1: w[:-1] + "a", 2: w[:-1] + "as"}
    body = []
    for v in sorted(ovals):
        f = forms(ovals[v][0])
        body.append(f"if v == {v} {{ if k == 3 {{ {W(f[3])} }} else if k == 4 {{ {W(f[4])} }} else if k == 1 {{ {W(f[1])} }} else {{ {W(f[2])} }} }}")
    mf = forms("milésimo")
    d.append("/// the ordinal word of value v (1..10, 20..90, 100..900) in the gender/number form k (3: -o, 4: -os, 1: -a, 2: -as)")
    d.append("#[verifier::opaque] pub open spec fn pt_ord_w(v: int, k: int) -> Seq<char> { " + " else ".join(body) + " else { " + W("milésimo") + " } }")
    d.append("pub open spec fn pt_ord_val(v: int) -> bool { (1 <= v <= 10) || (v % 10 == 0 && 20 <= v <= 90) || (v % 100 == 0 && 100 <= v <= 900) }")
    d.append("pub open spec fn pt_ord_d(v: int) -> Seq<u8> { if v < 10 { d1((48 + v) as u8) } else if v < 100 { d2((48 + v / 10) as u8, 48u8) } else { d3((48 + v / 100) as u8, 48u8, 48u8) } }")
    d.append("pub open spec fn pt_ord_cls(v: int) -> int { if v == 9 { 6 } else if v < 10 { 5 } else if v < 100 { 2 } else { 4 } }")
    d.append("pub proof fn lemma_pt_ord(v: int, k: int, o: DsView)")
    d.append("    requires pt_ord_val(v), 1 <= k <= 4")
    d.append("    ensures pt_row(pt_ord_d(v), k, pt_ord_cls(v), o, pt_model(pt_ord_w(v, k), o))")
    d.append("{")
    d.append("    reveal(d1); reveal(d2); reveal(d3); reveal(pt_ord_w);")
    for v in sorted(ovals):
        f = forms(ovals[v][0])
        assert CLSN[ovals[v][1]] == (6 if v == 9 else 5 if v < 10 else 2 if v < 100 else 4), (v, ovals[v])
        d.append(f"    if v == {v} {{ assert(pt_ord_d(v) =~= {digs(str(v))}); " + " ".join(f"if k == {kk} {{ pt_rows_{modof[f[kk]]}::lemma_pt_row_{wname(f[kk])}(o); }}" for kk in (1, 2, 3, 4)) + " }")
    d.append("}")
    d.append("pub open spec fn pt_mil_ow(k: int) -> Seq<char> { " + f"if k == 3 {{ {W(mf[3])} }} else if k == 4 {{ {W(mf[4])} }} else if k == 1 {{ {W(mf[1])} }} else {{ {W(mf[2])} }}" + " }")
    d.append("pub proof fn lemma_pt_mil_o(k: int, o: DsView) requires 1 <= k <= 4, is_empty_spec(o) || marker_same(pt_marker_of_kind(k), o.marker) ensures res_same(pt_model(pt_mil_ow(k), o), pt_fin(pt_mil_base(o), 0, pt_marker_of_kind(k))) { "
             + " ".join(f"if k == {kk} {{ pt_rows_{modof[mf[kk]]}::lemma_pt_row_{wname(mf[kk])}(o); }}" for kk in (1, 2, 3, 4)) + " }")
    open(os.path.join(T, "pt_dispatch.inc"), "w", encoding="utf-8").write("\n".join(d) + "\n")
    print(c + ":", len(arms), "arms,", len(rows), "rows,", len(allwords), "words")


# ------------------------------------------------------------------ Italian
def occurs(p, w):
    return p in w


def italian():
    c = "it"
    arms = load_arms(c)
    emit_model(c, arms, "arm-level model of Italian::apply for a word the splitter leaves whole: the match on the lemma (layer L3a)",
               extra_params=", w: Seq<char>")
    PATS = ["miliardesim", "milionesim", "bilionesim", "cinquanta", "centesim", "millesim", "miliardo", "miliardi", "quaranta", "sessanta", "settanta",
            "milione", "milioni", "bilione", "bilioni", "ottanta", "novanta", "trenta", "ttanta", "cento", "mille", "venti", "mila"]
    rows = []

    def add(w, cls, digits, n=0, desc=None):
        l = lemma_of(w)
        mk = {0: None, 1: "º", 2: "ª"}[marker_kind(w)]
        rows.append({"word": w, "cls": cls, "digits": digits, "n": n, "marker": mk, "expect": (digits + (mk or "")) if digits else None,
                     "desc": desc or f"{cls} {digits}" + (f", marker `{mk}`" if mk else "")})

    STEMS = ("prim", "second", "terz", "quart", "quint", "sest", "settim", "ottav", "ttav", "non", "decim")

    def lemma_of(w):
        cand = w.rstrip("oaei")
        if (cand in STEMS and w != "secondi") or cand.endswith("esim"):
            return cand
        return w

    def marker_kind(w):
        if lemma_of(w) != w and w:
            return 1 if w[-1] in "oi" else 2 if w[-1] in "ae" else 0
        return 0

    def infl(stem):
        return [stem + v for v in "oaie"]
    add("zero", "zero", "0")
    for w in ["uno", "un", "una"]:
        add(w, "elided", "1")
    for w in infl("unesim"):
        add(w, "elided", "1")
    units = [("due", "duesim", "2"), ("tre", "treesim", "3"), ("quattro", "quattresim", "4"), ("cinque", "cinquesim", "5"), ("sei", "seiesim", "6"),
             ("sette", "settesim", "7"), ("nove", "novesim", "9")]
    for cw, stem, d in units:
        add(cw, "unit", d)
        for w in infl(stem):
            add(w, "unit", d)
    add("tré", "unit", "3")
    for w in ["otto", "tto"] + infl("ottesim") + infl("ttesim"):
        add(w, "elided", "8")
    for stem, d in [("prim", "1"), ("second", "2"), ("terz", "3"), ("quart", "4"), ("quint", "5"), ("sest", "6"), ("settim", "7"), ("ottav", "8"), ("non", "9")]:
        for w in infl(stem):
            if w != "secondi":
                add(w, "ordunit", d)
    fixed = [("dieci", "decim", "10"), ("undici", "undicesim", "11"), ("dodici", "dodicesim", "12"), ("tredici", "tredicesim", "13"),
             ("quattordici", "quattordicesim", "14"), ("quindici", "quindicesim", "15"), ("sedici", "sedicesim", "16"), ("diciassette", "diciassettesim", "17"),
             ("diciotto", "diciottesim", "18"), ("diciannove", "diciannovesim", "19")]
    tens = [("vent", "2"), ("trent", "3"), ("quarant", "4"), ("cinquant", "5"), ("sessant", "6"), ("settant", "7"), ("ottant", "8"), ("novant", "9")]
    for t, d in tens:
        fixed.append((t + ("i" if t == "vent" else "a"), t + "esim", d + "0"))
        fixed.append((t + "uno", t + "unesim", d + "1"))
        fixed.append((t + "un", None, d + "1"))
        fixed.append((t + "otto", t + "ottesim", d + "8"))
    fixed.append(("ttanta", "ttantesim", "80"))
    fixed.append(("centuno", "centunesim", "101"))
    fixed.append(("centun", None, "101"))
    for cw, stem, d in fixed:
        add(cw, "fixed", d)
        if stem:
            for w in infl(stem):
                add(w, "fixed", d)
    add("cento", "cento", "100", 2, "hundred: multiplies a unit from 2 to 9, or stands for 100")
    for w in infl("centesim"):
        add(w, "cento", "100", 2, "hundredth")
    add("mille", "mille", "1000", 3)
    add("mila", "mila", "", 3, "thousands (after a number other than one)")
    for w in infl("millesim"):
        add(w, "millesim", "1000", 3, "thousandth")
    for stem, n in [("milion", 6), ("miliard", 9), ("bilion", 12)]:
        sing = stem + ("o" if stem == "miliard" else "e")
        add(sing, "scale1", "", n, f"10^{n} after exactly `un`")
        add(stem + "i", "scalep", "", n, f"10^{n} after a number other than one")
        for w in infl(stem + "esim"):
            add(w, "scaleo", "1" + "0" * n, n, f"10^{n}, ordinal")
    add("e", "e", "", 0, "`e` (and) is only a link inside a number")
    rows.append({"word": ",", "cls": "comma", "digits": "", "n": 0, "marker": None, "expect": None, "desc": "a comma is never a number word (it ends the number in progress)"})

    def splittable(w):
        return any(p in w for p in PATS) and w not in PATS

    def word_facts(r):
        w = r["word"]
        l = lemma_of(w)
        k = marker_kind(w)
        sp = "true" if splittable(l) else "false"
        if splittable(l) and w != ",":
            print("  note: row word", w, "is splittable: its table arm is never reached")
        ens = f"it_lemma({W(w)}) == {W(l)}, it_marker_kind({W(w)}) == {k}, splittable_spec(it_pats(), {W(l)}) == {sp}"
        asserts = [f"assert(it_lemma({W(w)}) =~= {W(l)}) by(compute_only);", f"assert(it_marker_kind({W(w)}) == {k}) by(compute_only);",
                   f"assert(splittable_spec(it_pats(), {W(l)}) == {sp}) by(compute_only);"]
        if l == "non":
            ens += f", {W(w)} != w_non()"
            asserts += ["it_codes();", f"assert(wcode({W(w)}) == {wcode(w)}) by(compute_only);"]
        return ens, asserts, l

    CLS = {"zero": 0, "elided": 1, "unit": 2, "ordunit": 3, "fixed": 4, "cento": 5, "mille": 6, "mila": 7, "millesim": 8, "scale1": 9, "scaleo": 10, "scalep": 11, "e": 12}

    def row_stmt(r):
        if r["word"] == ",":
            return f"!it_model({W(',')}, o).ok && !(it_model({W(',')}, o).err is Incomplete)"
        d = digs(r["digits"]) if (r["digits"] and len(r["digits"]) <= 4) else "Seq::<u8>::empty()"
        return f"it_row({CLS[r['cls']]}, {d}, {r['n']}, {marker_kind(r['word'])}, false, o, it_model({W(r['word'])}, o))"
    extra = list(STEMS) + ["secondi", "esim", "virgola", "non", ""] + PATS
    allwords = set(w for ws, _, _ in arms for w in ws) | set(r["word"] for r in rows) | set(lemma_of(r["word"]) for r in rows) | set(extra)
    ARMS_CURRENT[:] = arms
    inner = emit_rows(c, rows, word_facts, row_stmt)
    emit_words(c, allwords, inner, arms)
    json.dump(rows, open(os.path.join(T, f"{c}_rows.json"), "w", encoding="utf-8"), ensure_ascii=False)
    print(c + ":", len(arms), "arms,", len(rows), "rows,", len(allwords), "words")


# ------------------------------------------------------------------ German and Dutch (same shape: unit-before-ten, splitter)
def germanic(c, T, PATS, units, fixed, tens, scales, conj, zero, lemma_of, infl, is_ord, marker, extra, extra_rows=(), more_facts=None):
    arms = load_arms(c)
    emit_model(c, arms, f"arm-level model of {T}::apply for a word the splitter leaves whole: (outcome, words blocked for the next word) (layer L3a)",
               extra_params=", blocked: u64", ret="(ApRes, u64)", default="(err_res(o, Error::NaN), 0u64)")
    rows = []

    def add(w, cls, digits, n=0, desc=None):
        mk = marker if is_ord(lemma_of(w)) else None
        shown = digits + "0" if cls == "ten" else digits     # a ten is stored as its tens digit; alone it reads d0
        rows.append({"word": w, "cls": cls, "digits": digits, "n": n, "marker": mk, "expect": (shown + (mk or "")) if digits else None,
                     "desc": desc or f"{cls} {shown}" + (f", marker `{mk}`" if mk else "")})
    add(zero, "zero", "0")
    for d, (cards, ordw) in units.items():
        for w in cards:
            add(w, "unit", d)
            if c == "de" and w == "eine":
                rows[-1]["props"] = "C01"    # the feminine form only matters for "eine Million / Milliarde"
                rows[-1]["known_finding"] = True
        for w in infl(ordw):
            add(w, "unit", d)
    for d, (cw, ordw) in fixed.items():
        add(cw, "fixed", d)
        for w in infl(ordw):
            add(w, "fixed", d)
    for d, (cards, ords) in tens.items():
        for w in cards:
            add(w, "ten", d)
        for ow in ords:
            for w in infl(ow):
                add(w, "ten", d)
    for n, (cards, ordw, cls) in scales.items():
        for w in cards:
            add(w, cls, "1" + "0" * n, n, f"10^{n}")
        for w in infl(ordw):
            add(w, cls, "1" + "0" * n, n, f"10^{n}, ordinal")
    for w in conj:
        add(w, "conj", "", 0, "the conjunction is only a link inside a number")
    for r in extra_rows:
        rows.append(r)
    rows.append({"word": ",", "cls": "comma", "digits": "", "n": 0, "marker": None, "expect": None, "desc": "a comma is never a number word (it ends the number in progress)"})

    def splittable(w):
        return any(p in w for p in PATS) and w not in PATS

    def word_facts(r):
        w = r["word"]
        l = lemma_of(w)
        sp = "true" if splittable(l) else "false"
        if splittable(l) and w != ",":
            print("  note: row word", w, "is splittable: its table arm is never reached")
        o = "true" if is_ord(l) else "false"
        ens = f"{c}_lemma({W(w)}) == {W(l)}, {c}_ord_form({W(l)}) == {o}, splittable_spec({c}_pats(), {W(l)}) == {sp}"
        asserts = [f"assert({c}_lemma({W(w)}) =~= {W(l)}) by(compute_only);", f"assert({c}_ord_form({W(l)}) == {o}) by(compute_only);",
                   f"assert(splittable_spec({c}_pats(), {W(l)}) == {sp}) by(compute_only);"]
        if more_facts:
            for e_, a_ in more_facts(l):
                ens += ", " + e_
                asserts.append(a_)
        return ens, asserts, l

    CLS = {"zero": 0, "unit": 1, "fixed": 2, "ten": 3, "hundred": 4, "scale": 5, "conj": 6, "thousand": 7}

    def row_stmt(r):
        if r["word"] == ",":
            return f"!{c}_model({W(',')}, o).ok && !({c}_model({W(',')}, o).err is Incomplete)"
        dg = r["digits"]
        d = digs(dg) if (dg and len(dg) <= 2) else "Seq::<u8>::empty()"
        ten = f"{ord(dg[0])}u8" if r["cls"] == "ten" else "0u8"
        o = "true" if is_ord(lemma_of(r["word"])) else "false"
        return f"{c}_row({CLS[r['cls']]}, {d}, {ten}, {r['n']}, {o}, {W(lemma_of(r['word']))}, o, {c}_model({W(r['word'])}, o))"
    allwords = set(w for ws, _, _ in arms for w in ws) | set(r["word"] for r in rows) | set(lemma_of(r["word"]) for r in rows) | set(extra) | set(PATS)
    ARMS_CURRENT[:] = arms
    inner = emit_rows(c, rows, word_facts, row_stmt, props="C01, C04, C08, C16")
    emit_words(c, allwords, inner, arms)
    json.dump(rows, open(os.path.join(T_, f"{c}_rows.json"), "w", encoding="utf-8"), ensure_ascii=False)
    print(c + ":", len(arms), "arms,", len(rows), "rows,", len(allwords), "words")


def german():
    PATS = ["billion", "billionste", "milliarden", "milliarde", "milliardste", "millionen", "million", "millionste", "tausend", "tausendste",
            "hundert", "hundertste", "und"]

    def lemma_of(w):
        if w.endswith(("tes", "ter", "ten", "tem")):
            return w.rstrip("snmr")
        return w

    def infl(stem):
        return [stem, stem + "r", stem + "s", stem + "n", stem + "m"] if stem else []
    units = {"1": (["ein", "eins", "eine"], "erste"), "2": (["zwei", "zwo"], "zweite"), "3": (["drei"], "dritte"), "4": (["vier"], "vierte"),
             "5": (["fünf"], "fünfte"), "6": (["sechs"], "sechste"), "7": (["sieben"], "siebte"), "8": (["acht"], "achte"), "9": (["neun"], "neunte")}
    fixed = {"10": ("zehn", "zehnte"), "11": ("elf", "elfte"), "12": ("zwölf", "zwölfte"), "13": ("dreizehn", "dreizehnte"), "14": ("vierzehn", "vierzehnte"),
             "15": ("fünfzehn", "fünfzehnte"), "16": ("sechzehn", "sechzehnte"), "17": ("siebzehn", "siebzehnte"), "18": ("achtzehn", "achtzehnte"),
             "19": ("neunzehn", "neunzehnte")}
    tens = {"2": (["zwanzig"], ["zwanzigste"]), "3": (["dreißig", "dreissig"], ["dreißigste", "dreissigste"]), "4": (["vierzig"], ["vierzigste"]),
            "5": (["fünfzig"], ["fünfzigste"]), "6": (["sechzig"], ["sechzigste"]), "7": (["siebzig"], ["siebzigste"]), "8": (["achtzig"], ["achtzigste"]),
            "9": (["neunzig"], ["neunzigste"])}
    scales = {2: (["hundert"], "hundertste", "hundred"), 3: (["tausend"], "tausendste", "scale"), 6: (["million", "millionen"], "millionste", "scale"),
              9: (["milliarde", "milliarden"], "milliardste", "scale"), 12: (["billion"], "billionste", "scale")}
    germanic("de", "German", PATS, units, fixed, tens, scales, ["und"], "null", lemma_of, infl, lambda l: l.endswith("te"), ".",
             ["tes", "ter", "ten", "tem", "te", "eins", "komma", "null", "zwei", "drei", "vier", "fünf", "sechs", "sieben", "acht", "neun", ""])


def dutch():
    PATS = ["honderd", "honderdste", "duizend", "duizendste", "miljoen", "miljoenste", "miljard", "miljardste", "biljoen", "biljoenste", "een", "drie",
            "zeven", "zevende", "negen", "negende", "tien", "tiende", "dertien", "dertiende", "veertien", "veertiende", "vijftien", "vijftiende",
            "zestien", "zestiende", "zeventien", "zeventiende", "achttien", "achttiende", "negentien", "negentiende", "zeventig", "zeventigste",
            "negentig", "negentigste", "en", "ën"]
    units = {"1": (["één", "een"], "eerste"), "2": (["twee"], "tweede"), "3": (["drie"], "derde"), "4": (["vier"], "vierde"), "5": (["vijf"], "vijfde"),
             "6": (["zes"], "zesde"), "7": (["zeven"], "zevende"), "8": (["acht"], "achtste"), "9": (["negen"], "negende")}
    fixed = {"10": ("tien", "tiende"), "11": ("elf", "elfde"), "12": ("twaalf", "twaalfde"), "13": ("dertien", "dertiende"), "14": ("veertien", "veertiende"),
             "15": ("vijftien", "vijftiende"), "16": ("zestien", "zestiende"), "17": ("zeventien", "zeventiende"), "18": ("achttien", "achttiende"),
             "19": ("negentien", "negentiende")}
    tens = {"2": (["twintig"], ["twintigste"]), "3": (["dertig"], ["dertigste"]), "4": (["veertig"], ["veertigste"]), "5": (["vijftig"], ["vijftigste"]),
            "6": (["zestig"], ["zestigste"]), "7": (["zeventig"], ["zeventigste"]), "8": (["tachtig"], ["tachtigste"]), "9": (["negentig"], ["negentigste"])}
    scales = {2: (["honderd"], "honderdste", "hundred"), 3: (["duizend"], "duizendste", "thousand"), 6: (["miljoen"], "miljoenste", "scale"),
              9: (["miljard"], "miljardste", "scale"), 12: (["biljoen"], "biljoenste", "scale")}
    germanic("nl", "Dutch", PATS, units, fixed, tens, scales, ["en", "ën"], "nul", lambda w: w, lambda stem: [stem] if stem else [],
             lambda l: l.endswith("te") or l.endswith("de"), "e", ["te", "de", "ste", "komma", ""],
             more_facts=lambda l: [(f"nl_has_marker({W(l)}) == {'true' if (l.endswith('ste') or l.endswith('de')) else 'false'}",
                                    f"assert(nl_has_marker({W(l)}) == {'true' if (l.endswith('ste') or l.endswith('de')) else 'false'}) by(compute_only);")])


LANGS = {"en": english, "es": spanish, "fr": french, "pt": portuguese, "it": italian, "de": german, "nl": dutch}

if __name__ == "__main__":
    emit_wcode()
    for k, f in LANGS.items():
        if len(sys.argv) == 1 or k in sys.argv[1:]:
            f()
