#!/bin/bash
# usage: tools/par_sweep.sh <jobs> seeds [ID_k ...]        -- each seeded change through the check of its property
#        tools/par_sweep.sh <jobs> harmless <patch.diff>...  -- each harmless edit through all 18 checks
# Developer helper. Runs on private copies of /verif (committed or not: the working tree as it is now) and of /repo's HEAD
# (git worktrees, selected through VERIF_REPO), so neither /repo nor /verif/evidence is touched and one can keep working.
# /verif is taken at its last commit (git archive HEAD); the extractor binary is the one built in /verif/vx.
# The proof cache (build/cache, keyed by the hash of the generated unit + flags) is shared.
J=$1; MODE=$2; shift 2
ITEMS=("$@")
if [ "$MODE" = seeds ] && [ ${#ITEMS[@]} -eq 0 ]; then ITEMS=($(ls /verif/seeded)); fi
ROOT=/tmp/psw_$$
mkdir -p $ROOT
cleanup() { for k in $(seq 1 $J); do git -C /repo worktree remove --force $ROOT/r$k >/dev/null 2>&1; done; git -C /repo worktree prune; rm -rf $ROOT; }
trap cleanup EXIT
for k in $(seq 1 $J); do
  V=$ROOT/v$k; R=$ROOT/r$k
  mkdir -p $V && git -C /verif archive HEAD | tar -x -C $V   # the COMMITTED /verif: edits in progress do not leak into a sweep
  mkdir -p $V/vx/target/release && cp /verif/vx/target/release/vx $V/vx/target/release/vx
  mkdir -p $V/build && ln -s /verif/build/cache $V/build/cache
  git -C /repo worktree add -f --detach $R HEAD >/dev/null 2>&1
  sed -i "s|path = \"/repo\"|path = \"$R\"|" $V/witness/Cargo.toml $V/sendsync/Cargo.toml
done
worker() {
  k=$1; V=$ROOT/v$k; R=$ROOT/r$k
  i=0
  for it in "${ITEMS[@]}"; do
    i=$((i+1)); [ $(( (i - 1) % J + 1 )) -eq $k ] || continue
    if [ "$MODE" = seeds ]; then
      patch=/verif/seeded/$it/patch.diff; pids=$(echo $it | cut -d_ -f1)
    else
      patch=$(readlink -f "$it"); pids="C01 C02 C03 C04 C05 C06 C07 C08 C09 C10 C11 C12 C13 C14 C15 C16 C17 C18"
    fi
    if ! git -C $R apply --check $patch 2>/dev/null; then echo "$it: patch does not apply"; continue; fi
    git -C $R apply $patch
    res=""; t0=$(date +%s)
    for pid in $pids; do
      (cd $V && VERIF_REPO=$R ./check $pid quick > $ROOT/out_${k}_$pid.txt 2>&1); rc=$?
      line=$(grep -m1 -E 'VIOLATION|UNDECIDED' $ROOT/out_${k}_$pid.txt | cut -c1-200)
      if [ "$MODE" = seeds ]; then res="exit=$rc :: $line"; else [ $rc -ne 0 ] && res="$res $pid=$rc($line)"; fi
    done
    git -C $R checkout -- . ; git -C $R clean -fdq
    echo "$it: ${res:-all 18 checks exit 0} [$(( $(date +%s) - t0 ))s]"
  done
}
for k in $(seq 1 $J); do worker $k > $ROOT/log_$k.txt 2>&1 & done
wait
cat $ROOT/log_*.txt | sort
