#!/bin/sh
# usage: tools/harmless_sweep.sh <patch.diff>...   -- semantics-preserving edits must keep every check quiet (exit 0) or at worst UNDECIDED (exit 2)
ARGS=""; for a in "$@"; do ARGS="$ARGS $(readlink -f "$a")"; done; set -- $ARGS
cd /verif
rm -rf /tmp/evidence_keep && cp -r /verif/evidence /tmp/evidence_keep
for p in "$@"; do
  p=$(readlink -f "$p")
  if ! git -C /repo apply --check "$p" 2>/dev/null; then echo "$p: patch does not apply"; continue; fi
  git -C /repo apply "$p"
  res=""
  for i in 01 02 03 04 05 06 07 08 09 10 11 12 13 14 15 16 17 18; do
    ./check C$i quick > /tmp/harm_C$i.out 2>&1; rc=$?
    if [ $rc -ne 0 ]; then res="$res C$i=$rc($(grep -m1 -E 'VIOLATION|UNDECIDED' /tmp/harm_C$i.out | cut -c1-160))"; fi
  done
  git -C /repo checkout -- .
  echo "$p: ${res:-all 18 checks exit 0}"
done
rm -rf /verif/evidence && mv /tmp/evidence_keep /verif/evidence
