#!/usr/bin/env python3
"""Regenerates /verif/MANIFEST.json from the table below (single source of truth for what is claimed)."""
import json, os

VERIF = os.path.dirname(os.path.dirname(os.path.abspath(__file__)))
props = [json.loads(l) for l in open(os.path.join(VERIF, "properties.jsonl"))]

TRUST = ("Trusted: Verus/Z3/rustc; vstd's std specifications; the assumed std contracts in specs/std.rs "
         "(each listed in evidence.coverage.trusted_base); rewrite rules R1-R14 of the extractor; "
         "A-SIZE (DigitString counters < 2^61); allocation never fails. ")

CLAIMED = {
    "C12": {
        "text": "Every DigitString method of /repo/src/digit_string.rs carries a strongest-postcondition contract over an abstract view "
                "(digits, leading zeros, frozen, flags, marker) and Verus discharges all of them for all inputs: result is Ok exactly when the "
                "documented condition holds, the new state is the documented one, a failed operation leaves the view unchanged, frozen refuses "
                "put/put_digit_at/fput/shift, to_string is lz zeros followed by the digits and has length len(); bodies are panic-free.",
        "note": TRUST + "all_zeros and two closure chains (is_free, shift) are hoisted with assumed specs (R7). push is specified as documented "
                "(unconditional append, not refused when frozen). is_range_free keeps the author's precondition start < end.",
        "technique": "Verus function contracts on extracted real code (strongest postconditions over an abstract view)",
        "design_ref": "DESIGN.md §5 L1, §6 C12",
    },
}

PENDING_REASON = "not yet decided by the machinery in /verif (work in progress); no claim is made"

checks = []
for p in props:
    pid = p["id"]
    if pid in CLAIMED:
        c = CLAIMED[pid]
        checks.append({
            "property_id": pid,
            "quick_cmd": f"./check {pid} quick",
            "thorough_cmd": f"./check {pid} thorough",
            "evidence_file": f"/verif/evidence/{pid}.json",
            "replay_cmd_template": "./check --replay {path}",
            "engine": "verus-contracts",
            "level_claimed": {"category": "proof", "text": c["text"], "design_ref": c["design_ref"]},
            "level_note": c["note"],
            "technique": c["technique"],
        })
na = [{"property_id": p["id"], "reason": NA.get(p["id"], PENDING_REASON) if (NA := globals().get("NA_REASONS", {})) is not None else PENDING_REASON}
      for p in props if p["id"] not in CLAIMED]
m = {
    "version": 1,
    "setup_cmd": "cd /verif && ./setup.sh",
    "hooks": {
        "guard": "text2num_verif",
        "enable": "none needed: the checks read /repo's source text (extractor) and link the unmodified crate (witness programs); no hook commit exists",
        "baseline_off_cmd": "cd /repo && cargo test --workspace --no-fail-fast --offline",
        "source_commits": [],
        "add_only": True,
    },
    "engines": [
        {"name": "verus-contracts", "path": "/verif/check", "serves_properties": sorted(CLAIMED.keys()),
         "kind_free_text": "contract-based deductive verification: /verif/vx extracts the real functions from /repo on every run, "
                           "/verif/specs/*.vspec adds requires/ensures/invariants, Verus discharges every obligation function by function"},
    ],
    "checks": checks,
    "not_applicable": na,
    "notes": "exit 2 from a check means UNDECIDED (lost anchor, unsupported construct, solver limit, vacuity guard) and is never an alarm. "
             "Known findings and fixed defects: /verif/known_findings.txt.",
}
json.dump(m, open(os.path.join(VERIF, "MANIFEST.json"), "w"), indent=1)
print("claimed:", sorted(CLAIMED.keys()))
