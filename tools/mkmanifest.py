#!/usr/bin/env python3
"""Regenerates /verif/MANIFEST.json from the table below (single source of truth for what is claimed)."""
import json, os

VERIF = os.path.dirname(os.path.dirname(os.path.abspath(__file__)))
props = [json.loads(l) for l in open(os.path.join(VERIF, "properties.jsonl"))]

TRUST = ("Trusted, not proved: Verus/Z3/rustc; vstd's std specifications; the assumed std/str/f64 contracts in specs/std.rs and specs/tr.vspec "
         "and every hoisted closure chain (all enumerated per run in evidence.coverage.trusted_base); the extractor's rewrite rules R1-R32 "
         "(each application logged in evidence.coverage.units[].rewrite_rules_applied); A-SIZE (DigitString counters < 2^61); allocation never fails. ")
MECH = ("The end-to-end sentence of the property is a statement about two runs or about whole phrases; what is proved is the set of single-call "
        "contracts that pin it down (each clause tagged with this property id in specs/*.vspec). ")
LANGS7 = "all seven languages (en, fr, es, pt, it, de, nl)"
TECH = "Verus function contracts on the real code, extracted mechanically from /repo on every run"
DRV = ("COMPOSITION (spelling drivers, layer L3c), proved for English, Spanish, French (every n in [1, 10^12)) and Portuguese (every n in [1, 10^6)): the words of the standard spelling of n, "
       "offered in order to the language's word model from a fresh builder, are all accepted (link words: and / y / et) and leave exactly the decimal digits of n "
       "(machine-checked induction over the four three-digit groups. English: every placement of 'and', space or hyphen between tens and units - the hyphenated "
       "word goes through the compound branch. Spanish: long scale 'mil millones', one-word forms up to veintinueve, apocopated un / veintiun, 'mil' without 'un'. "
       "French: soixante-dix / quatre-vingt(s) / quatre-vingt-dix, 'et' before un and onze, cent(s), mille, million(s), milliard(s), the tens and units written as separate words or "
       "as one hyphenated word (dix-sept, vingt-et-un, quatre-vingt-dix-neuf: compound branch), the blocking flags between words tracked). A verified exec driver per language then shows, from the CONTRACTS of the real exec_group (both directions), apply and "
       "format_and_value only, that validating those words returns one number whose builder holds exactly those digits and whose text is those digits. ")

CLAIMED = {
    "C01": {
        "text": "Cardinal round trip. Word level, for " + LANGS7 + ": text2digits/exec_group are proved to offer every whitespace-separated, "
                "lower-cased word in order to one fresh builder through the language's apply and to render that builder (chain contract); (L3a) the real `apply` of each language is proved equal, arm by arm, to a "
                "frozen model table (word -> guard -> DigitString operation); (L3b) for every cardinal word of an independently written grammar table the model "
                "performs exactly the place-value instruction the grammar prescribes (digits, guard, blocking flags), and a comma is never a number word; the "
                "DigitString operations themselves have strongest-postcondition contracts (C12). For de/it/nl the splitter's pattern list in Default::default is "
                "proved equal to the frozen list and every table word is proved not to be split. The error of a refused phrase is specified too (exec_group / text2digits, "
                "both directions). " + DRV + "NOT proved: the composition for it, de, nl and for Portuguese from 10^6 up (bounded evidence only); French with hyphens beyond the tens-units word (the 1990 all-hyphen spelling) and the glued compounds "
                "of de/nl/it beyond 'the group result is placed as a whole under the Overlap guard' (the daachorse automaton and str::split are assumed); the same phrase "
                "found inside a sentence by the scanner (only the generic scanner theorems of C06/C07 apply). For interpreters that declare a word model (en, es, fr) exec_group and text2digits "
                "have a functional contract: the result IS the fold of that model over the words (text2digits: over the lower-cased, whitespace-separated words, rendered by the language), "
                "so the text-level statement is the driver theorem substituted into text2digits' contract (two units, both machine-checked, one substitution on paper).",
        "note": TRUST + "Known finding (German 'eine Million') listed in known_findings.txt. A-SPLIT / A-DASH (English and French hyphenated words): str::split('-') is an uninterpreted "
                "function with the axiom 'dash-free pieces joined by single dashes split back into those pieces', and the hoisted call exec_group(word.split('-')) is assumed to "
                "compute the fold of the word model over the parts. Bounded evidence for the languages without driver (thorough tier only, never counted as "
                "proof): about 2 800 spelled integers per language and seed from independent spellers (tools/spell.py) agree with text2digits and the rewriter.  WordSplitter (daachorse) has an assumed contract: is_splittable == "
                "'some pattern occurs and the word is not itself a pattern'; Italian/German/Dutch values are assumed to come from Default::default (private field).",
        "design_ref": "DESIGN.md §12.3 C01",
    },
    "C02": {
        "text": "Tokenizer is lossless (every token is exactly the source characters between two consecutive positions, nothing skipped, proved on "
                "Tokenize::next/match_word/match_sep with byte-offset/char-index bookkeeping); BasicToken::new keeps the text verbatim; the annotation pass of "
                "every language may only flip `nan` hints (trait contract: texts unchanged); occurrences handed to `replace` are in bounds, strictly increasing "
                "and disjoint (tracker invariant); NumTracker::replace / replace_numbers_in_stream: the output list is the input list with each span replaced by "
                "one token that Replace::replace made from exactly that span and the number's text, nothing else moved (splice spec + provenance); "
                "replace_numbers_in_text: the output text is the concatenation of the token texts of that splice, the tokens concatenating to the source. "
                "Assumed: Vec::drain/insert and join contracts, and whole-stream losslessness of tokenize inside unit scan (proved per token in unit tok).",
        "note": TRUST + MECH + "A-PEEK/A-SLICE: Peekable<CharIndices> and str slicing are specified by assumed contracts in specs/tok.vspec.",
        "design_ref": "DESIGN.md §12.3 C02",
    },
    "C03": {
        "text": "Every extracted function body of every unit (DigitString, trait default exec_group, scanner, tokenizer, facade, seven interpreters) is proved "
                "panic-free under its contract for all inputs: indices and slices in range, no arithmetic overflow, every unwrap()/parse().unwrap() justified by a "
                "precondition that each call site proves (e.g. format_and_value requires a non-empty digit string; exec_group on an empty group returns Err). "
                "Partial correctness: termination is proved only where Verus accepts a decreases clause.",
        "note": TRUST + "Termination of iterator-driven loops and of the apply<->exec_group recursion is not proved (exec_allows_no_decreases_clause). Functions left "
                "external (listed in evidence) are not covered: WordSplitter (daachorse), phf set lookups, closure chains hoisted by R7/R12, Italian/German/Dutch::new.",
        "design_ref": "DESIGN.md §12.3 C03",
    },
    "C04": {
        "text": "Ordinal round trip. Word level, for " + LANGS7 + ": every ordinal word form of the grammar table (all gender/number/case inflections) is proved to "
                "be lemmatized to its table entry, to place the digits of its cardinal under the grammar's guard, to set exactly the marker the grammar prescribes "
                "(get_morph_marker contract) and to freeze the number; format_and_value is proved to render digits followed by the marker. COMPOSITION, proved for English "
                "(every rank n in [1, 10^12): the spelling of n with its last word in ordinal form - unit, teen, ten, hundredth, thousandth, millionth, billionth; hyphenated or not) "
                "Spanish (every rank in [1, 1999] in the four gender/number forms, each word inflected alike; the bare 'segundo(s)', which the language reads as the time unit, "
                "excepted), Portuguese (every rank in [1, 1999] in the four gender/number forms: milésimo, centésimo .., décimo .., primeiro ..) and French (every rank in [1, 999 999], separate words: 'premier', otherwise the cardinal's words with the last one in its -ième form - vingt et unième, "
                "quatre vingt dixième, deux centième, trois millième - proved by swapping the last word of the cardinal's trace: a word and its -ième form have the same grammar row but for the marker): the words are accepted as one number, the builder holds exactly the digits of n and the marker of the form (st / nd / rd / th; the four Spanish markers; er / ème), "
                "the number is flagged ordinal, and the verified exec driver derives from the contracts of the real exec_group / apply / format_and_value that the text is those digits "
                "followed by that marker. NOT proved: multi-word ordinals of it, de, nl, French feminine / plural forms and hyphenated French ordinals (bounded evidence only).",
        "note": TRUST + "Found and fixed through these obligations: en 'sixtieth', es 'cuadringentésimo', es 'tercer', fr 'huitantième', it 'sedicesimo', "
                "'settantunesimo', 'centunesimo' (known_findings.txt).",
        "design_ref": "DESIGN.md §12.3 C04, §13",
    },
    "C05": {
        "text": "WordToDigitParser::push / string_and_value contracts: a decimal-separator word is accepted only after a non-ordinal number, only once, and is reported "
                "as Incomplete; integer and fractional parts live in two builders; the rendered text is int + mark + frac through the language's "
                "format_decimal_and_value (proved per language: exactly int ++ ',' (en: '.') ++ frac with every digit and leading zero of both parts, value exactly "
                "parse_f64(int.frac)); DigitString::push appends verbatim; English and German apply_decimal are proved to be digit dictation. "
                "COMPOSITION, proved for English, Spanish, French and Portuguese (pt: integer and fraction below 10^6) in two machine-checked halves: (a) generic in the language (unit scan, `drive_parser`): the real parser - new, push for "
                "every word of a stream in order, string_and_value - computes the parser fold of the language's word model and fraction-word model (for interpreters that declare such models; "
                "push has a functional contract for them) and renders it as int, mark, frac when a separator was seen and fraction digits followed; (b) per language "
                "(lemma_en_decimal, lemma_es_decimal, lemma_fr_decimal, lemma_pt_decimal): for every z, every n below 10^12 and every fraction (English: any non-empty sequence of dictated digits; Spanish / French: "
                "zero words and / or the spelling of any m below 10^12; the integer part may be a spoken zero, the fraction may be zeros only), the parser fold over 'zeros spell(n) separator fraction' ends with the integer builder holding exactly "
                "the zeros and the digits of n, the fraction builder holding exactly the fraction's digits with its leading zeros, and the separator seen. The decimal round trip for these "
                "languages is the substitution of (b) into (a). NOT proved: that substitution inside one verifier query (the two halves live in different units); it, de, nl (bounded evidence only); "
                "the same phrase found inside a sentence by the scanner.",
        "note": TRUST + MECH + "f64 values are defined as parse_f64 of the rendered digits (assumed). The per-language lemmas write the interpreter's spec methods (word_res, dec_res, decsep_spec) out as "
                "their defining functions (en_word_res, ...): a spec closure that captures the interpreter value upsets an unrelated obligation in this Verus version.",
        "design_ref": "DESIGN.md §12.3 C05, §13.8",
    },
    "C06": {
        "text": "Scanner invariant proved for all token streams, generically in the language, token type and iterator: occurrences have non-empty spans inside the "
                "stream, strictly increasing and pairwise disjoint (NumTracker invariant + track_numbers/find_numbers postconditions); each occurrence's text, value and "
                "is_ordinal come from one call of the language's format contract on the parser's builders (digits [+ marker] or int-mark-frac); an ordinal never has a "
                "decimal part (parser invariant, found and fixed a defect).",
        "note": TRUST + "Numeric meaning of value: parse_f64 (assumed).",
        "design_ref": "DESIGN.md §12.3 C06",
    },
    "C07": {
        "text": "Failure atomicity, proved: every DigitString operation and every language's apply/apply_decimal leave the builder's digits, zeros, marker and frozen "
                "flag unchanged when they return Err; WordToDigitParser::push leaves both builders untouched on a rejected word; the scanner ends the open number "
                "exactly when push is rejected and starts the next from a fresh parser. The validator is specified in both directions: exec_group (and text2digits through it) "
                "returns Ok exactly with the chain of apply outcomes over all its words on one fresh builder, and Err with the error of the first word refused outright after a soft prefix, "
                "Incomplete when the last word was a link word, NaN for an empty group. NOT proved: the two-run statement 'validator(span) = occurrence' and "
                "threshold-0 completeness.",
        "note": TRUST + MECH,
        "design_ref": "DESIGN.md §12.3 C07",
    },
    "C08": {
        "text": "Per-word guards that keep numbers apart, proved for " + LANGS7 + " against the grammar tables: units refused after 'ten', tens/teens refused over "
                "occupied positions (DigitString::put/put_digit_at exact acceptance conditions), blocking flags (fr/de/nl unit-before-ten, pt/es restrictions) "
                "set and cleared exactly as the grammar rows say; zero accepted only on an empty value. PAIR THEOREM, proved for English and Spanish at the level of the word model: "
                "after a complete number a in [1,99], the first word of a number b in [0,99] is accepted exactly when a is a round ten (en: from twenty, es: from thirty) and b is a unit - "
                "the two are then the spelling of a + b - and in every other case it is refused outright (never as a link word) with the state untouched, so that the scanner theorem "
                "'a refused word ends the number and starts a new one' (C07) applies: 'twenty twelve' is 20 12, 'ten five' is 10 5, 'five zero' is 5 0; dictated digits: after a non-zero "
                "digit every further digit word, zero included, is refused outright; Portuguese: without the conjunction the first word of b is always refused outright (a number below one hundred may only be added after 'e'). "
                "NOT proved: the pair sweep for fr, it, de, nl and with the conjunction as joiner "
                "(bounded: exhaustive sweep in the thorough tier).",
        "note": TRUST + MECH,
        "design_ref": "DESIGN.md §12.3 C08",
    },
    "C09": {
        "text": "Exact contracts of the lone-number policy for all inputs: FindNumbers::number_end and NumTracker::number_end (three-way split keep / hold / drop as a "
                "function of value < threshold, ordinal, single digit, contiguity), sequence_breaker, and outside_number (what breaks a sequence: a non-linking word or "
                "a lone period); is_linking is the vocabulary lookup on the lower-case form. Float facts, complete proofs by Kani on the scanner's own comparison expression "
                "(loop-free harnesses over full-domain symbolic f64): a NaN threshold hides nothing; a threshold of zero or below hides no non-negative value; raising the threshold "
                "is monotone (v < t1 and t1 <= t2 imply v < t2); a value equal to the threshold is not small. NOT proved: monotonicity of whole outputs across two thresholds as a "
                "two-run theorem (it is the paper corollary of the policy contract and the monotonicity lemma).",
        "note": TRUST + MECH,
        "technique": TECH + "; complete Kani proofs (loop-free harnesses, full-domain symbolic f64) for the float facts about the scanner's comparison expression",
        "design_ref": "DESIGN.md §12.3 C09",
    },
    "C10": {
        "text": "Reset contracts proved: after every number the parser is fresh; a comma / flagged token always ends the number in progress in every language; French and "
                "English basic_annotate test each candidate on a scratch builder that is reset between tests (loop invariant; found and fixed a French defect); "
                "the French rule for 'neuf' is proved exact and local (decided from three true words before and one after, nothing farther away); "
                "tracker hold/release state is cleared by every sequence breaker. NOT proved: rewrite(A S B) = rewrite(A) S rewrite(B) as a two-run theorem.",
        "note": TRUST + MECH,
        "design_ref": "DESIGN.md §12.3 C10",
    },
    "C11": {
        "text": "Canonical-form discipline proved: BasicToken::new stores lower(text); every LangInterpreter method requires is_lower(word) and every call site in "
                "the scanner, the parser, exec_group and the languages' annotation passes proves it (found and fixed: is_linking was called on the raw text). "
                "NOT proved: the two-run statement itself; to_lowercase is an assumed spec function.",
        "note": TRUST + MECH,
        "design_ref": "DESIGN.md §12.3 C11",
    },
    "C12": {
        "text": "Every DigitString method of /repo/src/digit_string.rs carries a strongest-postcondition contract over an abstract view "
                "(digits, leading zeros, frozen, flags, marker) and Verus discharges all of them for all inputs: result is Ok exactly when the "
                "documented condition holds, the new state is the documented one, a failed operation leaves the view unchanged, frozen refuses "
                "put/put_digit_at/fput/shift, to_string is lz zeros followed by the digits and has length len(); bodies are panic-free.",
        "note": TRUST + "all_zeros and two closure chains (is_free, shift) are hoisted with assumed specs (R7). push is specified as documented "
                "(unconditional append, not refused when frozen). is_range_free keeps the author's precondition start < end.",
        "design_ref": "DESIGN.md §12.3 C12",
    },
    "C13": {
        "text": "Facade proved against provenance predicates: each of the eight trait methods (and basic_annotate) of `Language` - the body of the `delegate!` macro_rules, expanded textually at its invocation by the extractor (rule R28) so that they are ordinary functions with every rewrite rule available - must "
                "establish for each variant the opaque predicate that only the same-named method of that variant's concrete interpreter establishes, so a swapped, "
                "missing or defaulted delegation fails; get_interpreter_for is proved to return exactly the matching variant for the seven ISO codes (found and "
                "fixed: 'pt') and None for every other string. A structural obligation adds that every LangInterpreter method one of the seven interpreters "
                "implements itself is also defined by the facade (none falls back to the trait default); a gap there is UNDECIDED, and the bounded "
                "'facade' search (concrete type against Language on about 200 000 one- and two-word phrases, labelled bounded) then decides with a witness or not at all.",
        "note": TRUST + "The seven interpreters are stubs carrying only the trait contract in this unit (their own proofs are the lang_* units).",
        "design_ref": "DESIGN.md §12.3 C13, §13.12, §13.13",
    },
    "C14": {
        "text": "Partial: (a) no interpreter method writes to the process's standard streams: dbg!/print!/eprint! families are rewritten to a helper whose "
                "precondition is false, so a reachable call is a failed obligation (found and fixed the Dutch dbg!); (b) frame: extracted interpreter code may "
                "only call functions that have a functional contract, and a field of an interior-mutability / global-state type (Mutex, RefCell, Cell, atomics, "
                "static mut, thread_local) in an interpreter struct is reported as the frame obligation failing; (c) the splitter patterns are fixed by "
                "Default::default (de/it/nl). NOT decided here: Send + Sync and freedom from data races under interleavings (no concurrency semantics in "
                "Verus/Kani; rests on Rust's aliasing rules for &self without interior mutability).",
        "note": TRUST + "History independence follows from (b) only on paper. WordSplitter's automaton is assumed read-only.",
        "design_ref": "DESIGN.md §12.3 C14",
    },
    "C15": {
        "text": "Single-run stream contracts proved generically over a prophetic iterator: FindNumbers::new reads nothing; push handles a token flagged "
                "not_a_number_part by ending the number in progress and never placing it inside an occurrence; a token that declares itself unrelated to its "
                "predecessor never continues the predecessor's number; a comma is refused by every interpreter and is never a decimal separator; the Token trait's default hint "
                "methods are pinned (a change of their bodies makes the unit undecided and is then looked at by the bounded stand-in with tokens that keep the defaults). NOT proved: "
                "iter(stream) = batch(stream) (two-run), and the exact amount of look-ahead of the lazy iterator.",
        "note": TRUST + MECH,
        "design_ref": "DESIGN.md §12.3 C15",
    },
    "C16": {
        "text": "DigitString::put accepts '0' exactly on an empty value and counts it in leading_zeroes; to_string prepends exactly that many zeros; len/is_empty "
                "include them (exact contracts, C12); for " + LANGS7 + " the zero word and every guard that inspects the number so far are proved against grammar "
                "rows that are stated over values with leading zeros (found and fixed: Italian 'un milione' after a zero). COMPOSITION, proved for English, Spanish, French (n below 10^12) and Portuguese (n below 10^6): "
                "for every z >= 0 and every n in range, z zero words followed by the spelling of n are accepted as ONE number whose builder holds exactly z leading zeros and the digits of n, "
                "and the text is z zeros followed by those digits (spelling drivers, see C01); a zero word offered to a builder that already holds a digit is refused outright with the digits untouched, "
                "for every such state (lemma_<c>_zero_after, en / es / fr / pt), so the scanner closes the number and the zero starts a new numeral. "
                "NOT proved: the composition for it, de, nl and Portuguese from 10^6 up (bounded evidence only).",
        "note": TRUST + MECH,
        "design_ref": "DESIGN.md §12.3 C16, §13",
    },
    "C17": {
        "text": "Proved: the tokenizer cuts maximal runs (a word token is a maximal run of word characters, a separator token a maximal run of non-alphanumerics), "
                "so amount of whitespace cannot change the word tokens; the scanner skips tokens made only of (Unicode) whitespace and lone hyphens before looking "
                "at anything else; outside_number's classification of separators only looks at alphabetic/period content. NOT proved: the two-run statement; "
                "English basic_annotate's neighbour search still uses an ASCII-only whitespace test (unverified closure, see DESIGN §12.5).",
        "note": TRUST + MECH + "char predicates (is_whitespace, is_alphanumeric, is_alphabetic) are uninterpreted with assumed inclusions.",
        "design_ref": "DESIGN.md §12.3 C17",
    },
    "C18": {
        "text": "Proved: the scanner never lets a token flagged `nan` start, continue or sit inside an occurrence, and English 'o' shares the table arm of "
                "'zero'/'nought' (row lemma). English::basic_annotate is proved memory-safe and text-preserving, and its index list is proved to be exactly the "
                "non-whitespace tokens in order. NOT proved: the rule 'o is flagged iff neither neighbour is a number word' (the neighbour test runs through a "
                "hoisted closure and a scratch apply; only its frame is specified).",
        "note": TRUST + MECH,
        "design_ref": "DESIGN.md §12.3 C18",
    },
}
for _k in CLAIMED:
    CLAIMED[_k].setdefault("technique", TECH)

PENDING_REASON = "not yet decided by the machinery in /verif (work in progress); no claim is made"

checks = []
for p in props:
    pid = p["id"]
    if pid in CLAIMED:
        c = CLAIMED[pid]
        checks.append({
            "property_id": pid,
            "quick_cmd": f"./check {pid} quick",
            "thorough_cmd": f"./check {pid} thorough",
            "evidence_file": f"/verif/evidence/{pid}.json",
            "replay_cmd_template": "./check --replay {path}",
            "engine": "verus-contracts",
            "level_claimed": {"category": "proof", "text": c["text"], "design_ref": c["design_ref"]},
            "level_note": c["note"],
            "technique": c["technique"],
        })
na = [{"property_id": p["id"], "reason": NA.get(p["id"], PENDING_REASON) if (NA := globals().get("NA_REASONS", {})) is not None else PENDING_REASON}
      for p in props if p["id"] not in CLAIMED]
m = {
    "version": 1,
    "setup_cmd": "cd /verif && ./setup.sh",
    "hooks": {
        "guard": "text2num_verif",
        "enable": "none needed: the checks read /repo's source text (extractor) and link the unmodified crate (witness programs); no hook commit exists",
        "baseline_off_cmd": "cd /repo && cargo test --workspace --no-fail-fast --offline",
        "source_commits": [],
        "add_only": True,
    },
    "engines": [
        {"name": "verus-contracts", "path": "/verif/check", "serves_properties": sorted(CLAIMED.keys()),
         "kind_free_text": "contract-based deductive verification: /verif/vx extracts the real functions from /repo on every run, "
                           "/verif/specs/*.vspec adds requires/ensures/invariants, Verus discharges every obligation function by function"},
    ],
    "checks": checks,
    "not_applicable": na,
    "notes": "exit 2 from a check means UNDECIDED (lost anchor, unsupported construct, solver limit, vacuity guard) and is never an alarm. "
             "When the verifier is undecided on a changed tree, a bounded stand-in search on the real crate (stated bound, labelled bounded in "
             "evidence.coverage.bounded_stand_ins, never counted as proof) may still report a VIOLATION with a reproduced failing input. "
             "thorough = quick + all obligations under two more Z3 seeds + the bounded searches. "
             "Known findings and fixed defects: /verif/known_findings.txt. What is proved and what is not, per property: DESIGN.md section 12.3.",
}
json.dump(m, open(os.path.join(VERIF, "MANIFEST.json"), "w"), indent=1)
print("claimed:", sorted(CLAIMED.keys()))
