#!/usr/bin/env python3
"""ONE-TIME bootstrap: reads the big `match` of a language's apply() in /repo and writes specs/tables/<c>_arms.json
(words, guard, action as spec expressions).  The JSON is then reviewed, corrected where the code is wrong
(the model states the intended table) and FROZEN in git: gen_lang.py reads only the JSON, never /repo."""
import json, os, re, sys

VERIF = os.path.dirname(os.path.dirname(os.path.abspath(__file__)))


def extract(path, anchor):
    src = open(path, encoding="utf-8").read()
    start = src.index(anchor)
    i = src.index("{", start)
    depth, j = 0, i
    while True:
        c = src[j]
        if c == "{":
            depth += 1
        elif c == "}":
            depth -= 1
            if depth == 0:
                break
        j += 1
    body = src[i + 1:j]
    arms, k, n = [], 0, len(body)

    def skip(k):
        while k < n and body[k].isspace():
            k += 1
        return k
    while True:
        k = skip(k)
        if k >= n:
            break
        if body.startswith("//", k):
            k = body.index("\n", k)
            continue
        a = body.index("=>", k)
        pat = body[k:a].strip()
        k = skip(a + 2)
        if body[k] == "{":
            d, m = 0, k
            while True:
                if body[m] == "{":
                    d += 1
                elif body[m] == "}":
                    d -= 1
                    if d == 0:
                        break
                m += 1
            act = body[k:m + 1]
            k = skip(m + 1)
            if k < n and body[k] == ",":
                k += 1
        else:
            d, m = 0, k
            while m < n and not (body[m] == "," and d == 0):
                if body[m] in "([{":
                    d += 1
                elif body[m] in ")]}":
                    d -= 1
                m += 1
            act = body[k:m]
            k = m + 1
        g = None
        if " if " in pat:
            pat, g = pat.split(" if ", 1)
        words = re.findall(r'"([^"]*)"', pat)
        arms.append({"words": words or [pat.strip()], "guard": re.sub(r"\s+", " ", g.strip()) if g else None,
                     "action": re.sub(r"\s+", " ", act.strip())})
    return arms


def digs(s):
    return {1: "d1", 2: "d2", 3: "d3", 4: "d4"}[len(s)] + "(" + ", ".join(f"{ord(c)}u8" for c in s) + ")"


def tr_guard(g):
    if g is None:
        return None
    g = re.sub(r'b\.peek\((\d+)\) != b"(\d+)"', lambda m: f"!(peek_spec(o, {m.group(1)}) == {digs(m.group(2))})", g)
    g = re.sub(r'b\.peek\((\d+)\) == b"(\d+)"', lambda m: f"(peek_spec(o, {m.group(1)}) == {digs(m.group(2))})", g)
    g = re.sub(r"b\.is_range_free\((\d+), (\d+)\)", r"range_free_spec(o, \1, \2)", g)
    g = re.sub(r"b\.len\(\) >= (\d+)", r"size_of(o) >= \1", g)
    g = re.sub(r"b\.is_free\((\d+)\)", r"is_free_spec(o, \1)", g)
    g = g.replace("b.is_empty()", "is_empty_spec(o)").replace("b.marker.is_ordinal()", "(o.marker is Ordinal)").replace("b.marker.is_none()", "(o.marker is None)")
    return g


def tr_action(a):
    a = a.strip()
    if a.startswith("{") and a.endswith("}"):
        inner = a[1:-1].strip()
        if ";" not in inner and " if " not in (" " + inner):
            a = inner
    m = re.fullmatch(r'b\.(put|fput|push)\(b"(\d+)"\)', a)
    if m:
        return f"{m.group(1)}_res(o, {digs(m.group(2))})"
    m = re.fullmatch(r"b\.shift\((\d+)\)", a)
    if m:
        return f"shift_res(o, {m.group(1)})"
    m = re.fullmatch(r"b\.put_digit_at\(b'(\d)', (\d+)\)", a)
    if m:
        return f"pda_res(o, {ord(m.group(1))}u8, {m.group(2)})"
    m = re.fullmatch(r"Err\(Error::(\w+)\)", a)
    if m:
        return f"err_res(o, Error::{m.group(1)})"
    return "TODO<<" + a + ">>"


if __name__ == "__main__":
    c, path, anchor = sys.argv[1], sys.argv[2], sys.argv[3]
    arms = extract(path, anchor)
    out = []
    for a in arms:
        if a["words"] == ["_"]:
            continue
        out.append({"words": a["words"], "guard": tr_guard(a["guard"]), "action": tr_action(a["action"]), "src_guard": a["guard"], "src_action": a["action"]})
    p = os.path.join(VERIF, "specs", "tables", f"{c}_arms.json")
    json.dump(out, open(p, "w", encoding="utf-8"), ensure_ascii=False, indent=0)
    print(len(out), "arms ->", p)
    for a in out:
        if "TODO" in a["action"] or (a["guard"] and "b." in a["guard"]):
            print("REVIEW:", a["words"][:2], "|", a["guard"], "|", a["action"][:150])
