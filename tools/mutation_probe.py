#!/usr/bin/env python3
"""Developer tool: syntactic mutation probe. For each small mutation of a /repo source file (outside #[cfg(test)]), re-verify the
units and report the mutants that NO obligation notices (candidates for blind spots; equivalent mutants show up here too).
usage: tools/mutation_probe.py <repo-relative file> [max_mutants]     -- /repo is restored after every mutant"""
import os, re, subprocess, sys, json

VERIF = os.path.dirname(os.path.dirname(os.path.abspath(__file__)))
sys.path.insert(0, VERIF)
from vlib import run  # noqa: E402

REPO = "/repo"
OPS = [
    (r"(?<![<>=!-])<=(?!=)", "<"), (r"(?<![<>=!&-])<(?![<=])", "<="), (r">=", ">"), (r"(?<![-=>])>(?![>=])", ">="),
    (r"==", "!="), (r"!=", "=="), (r"&&", "||"), (r"\|\|", "&&"), (r"\+ 1\b", "+ 2"), (r"- 1\b", "- 0"), (r"\btrue\b", "false"), (r"\bfalse\b", "true"),
    (r"\b0\b", "1"), (r"\b3\b", "4"), (r"\b5\b", "6"), (r"\b2\b", "3"), (r"!self\.", "self."), (r"\.is_empty\(\)", ".is_null()"), (r"\.is_ok\(\)", ".is_err()"),
]


def units_for(rel):
    if rel.startswith("src/lang/") and rel != "src/lang/mod.rs":
        return ["lang_" + rel.split("/")[2]]
    return ["ds", "tr", "scan", "tok", "fac"]


def main():
    rel = sys.argv[1]
    limit = int(sys.argv[2]) if len(sys.argv) > 2 else 10 ** 9
    path = os.path.join(REPO, rel)
    src = open(path, encoding="utf-8").read()
    cut = src.find("#[cfg(test)]")
    body = src if cut < 0 else src[:cut]
    lines = body.split("\n")
    mutants = []
    for ln, line in enumerate(lines):
        code = line.split("//")[0]
        if not code.strip() or code.strip().startswith(("#", "use ", "///")):
            continue
        for pat, rep in OPS:
            for m in re.finditer(pat, code):
                # skip matches inside string literals
                if code[:m.start()].count('"') % 2 == 1:
                    continue
                mutants.append((ln, m.start(), m.end(), rep))
    print(f"{rel}: {len(mutants)} mutants", flush=True)
    survivors = []
    for k, (ln, a, b, rep) in enumerate(mutants[:limit]):
        new_lines = list(lines)
        new_lines[ln] = lines[ln][:a] + rep + lines[ln][b:]
        open(path, "w", encoding="utf-8").write("\n".join(new_lines) + (src[cut:] if cut >= 0 else ""))
        try:
            bad = 0
            for u in units_for(rel):
                r = run.analyse_unit(u)
                if r["status"] != "ok":
                    bad += 1
                bad += sum(1 for o in r["obligations"] if o["status"] != "discharged" and not o["id"].endswith("lemma_de_row_eine"))
            if bad == 0:
                # nobody noticed: does it at least compile and pass the suite?
                p = subprocess.run(["cargo", "test", "--offline", "--lib", "-q"], cwd=REPO, capture_output=True, text=True)
                verdict = "suite-kills" if p.returncode != 0 else "SURVIVES"
                print(f"  [{k}] line {ln + 1}: `{lines[ln].strip()[:90]}`  {lines[ln][a:b]!r}->{rep!r}: unnoticed by the checks, {verdict}", flush=True)
                if verdict == "SURVIVES":
                    survivors.append((ln + 1, lines[ln].strip(), rep))
        finally:
            open(path, "w", encoding="utf-8").write(src)
    print(f"{rel}: {len(survivors)} surviving mutants (unnoticed by checks AND by the suite)")
    for s in survivors:
        print("   ", s)


if __name__ == "__main__":
    main()
