//! vx — mechanical extractor: copies items of a Rust source file verbatim (by byte span) and
//! applies a fixed set of local, syntax-directed rewrite rules so that the text is accepted
//! by Verus, injecting contract text from a plan.  Every rule application is logged.
//!
//! usage: vx <plan.json>   (prints a JSON result on stdout)

use proc_macro2::Span;
use serde::{Deserialize, Serialize};
use std::collections::{BTreeMap, HashMap, HashSet};
use syn::spanned::Spanned;
use syn::visit::{self, Visit};

#[derive(Deserialize, Default, Clone)]
struct Contract {
    /// a private helper that the code may stop having (nothing is lost when it is gone: its callers are checked against their own contracts)
    #[serde(default)]
    optional: bool,
    /// name given to the return value (`-> (r: T)`)
    #[serde(default)]
    ret: Option<String>,
    /// requires / ensures / decreases text, inserted between signature and body
    #[serde(default)]
    spec: String,
    /// text inserted right after the opening brace of the body (proof blocks only)
    #[serde(default)]
    entry: String,
    /// loop ordinal -> invariant/decreases text inserted before the loop body
    #[serde(default)]
    loops: BTreeMap<String, String>,
    /// attribute text placed before the function
    #[serde(default)]
    attrs: String,
    /// for functions left external with an assumed spec: the (whitespace-free) body text the spec was written for
    #[serde(default)]
    pin_body: String,
    /// proof text inserted before the closing brace of the body (only for bodies without tail expression)
    #[serde(default)]
    exit: String,
    /// the exit text also goes before every explicit `return` (R26b)
    #[serde(default)]
    exit_all: bool,
    /// "ordinal" -> proof text inserted before the ordinal-th statement-level anchor (unused by default)
    #[serde(default)]
    external: bool,
}

#[derive(Deserialize, Clone)]
struct Hoist {
    in_fn: String,
    /// ordinal of the closure-carrying method chain inside the function (source order, outermost)
    nth: usize,
    /// method name where the chain is cut: receiver of that call becomes the helper argument
    split: String,
    /// helper name
    name: String,
    /// full helper signature after the name, e.g. "(recv: &[u8]) -> (r: bool)"
    sig: String,
    /// generics text e.g. "<T: BasicAnnotate>"
    #[serde(default)]
    generics: String,
    #[serde(default)]
    spec: String,
    #[serde(default)]
    by_ref: bool,
    /// whitespace-free text the hoisted suffix must have (the assumed spec was written for exactly this text)
    #[serde(default)]
    pin: String,
    /// other texts the same chain may have, each with the spec assumed for that text
    #[serde(default)]
    alts: Vec<HoistAlt>,
}

#[derive(Deserialize, Clone)]
struct HoistAlt {
    pin: String,
    spec: String,
}

#[derive(Deserialize, Default)]
struct Plan {
    file: String,
    /// item keys to keep ("struct X", "impl X", "impl Tr for X", "fn f", "enum X", "trait X",
    /// "static N", "macro m"); empty = every non-test item
    #[serde(default)]
    keep: Vec<String>,
    #[serde(default)]
    drop: Vec<String>,
    /// function keys whose body is not verified in this unit (kept verbatim, marked external_body)
    #[serde(default)]
    external: Vec<String>,
    /// mark every function external_body except those listed in `verify`
    #[serde(default)]
    external_all: bool,
    #[serde(default)]
    verify: Vec<String>,
    #[serde(default)]
    contracts: HashMap<String, Contract>,
    /// source texts (whitespace-free) of places of type Vec<_> for rule R3
    #[serde(default)]
    vec_places: Vec<String>,
    #[serde(default)]
    hoists: Vec<Hoist>,
    /// derive names removed from #[derive(..)]
    #[serde(default)]
    strip_derives: Vec<String>,
    /// macros replaced by a text (name -> replacement statement/expr text)
    #[serde(default)]
    macro_stubs: HashMap<String, String>,
    /// text substituted for whole items (item key -> replacement text), e.g. bitflags!/phf stubs
    #[serde(default)]
    item_stubs: HashMap<String, String>,
    /// str-literal matches are rewritten to if-chains (R2) unless disabled
    #[serde(default)]
    no_match_rewrite: bool,
    /// functions in which `for` loops are rewritten (R1); "*" = all
    #[serde(default)]
    for_rewrite: Vec<String>,
    /// function-call chains (R12) hoisted by textual key
    #[serde(default)]
    chain_hoists: Vec<ChainHoist>,
    /// item attribute text to add before an item (item key -> text)
    #[serde(default)]
    item_attrs: HashMap<String, String>,
    /// where-clause / trait bound text appended.. (unused)
    #[serde(default)]
    ident_renames: HashMap<String, String>,
    /// text inserted right after the opening brace of a trait / impl item (item key -> text):
    /// ghost declarations only (spec fns of the contract layer)
    #[serde(default)]
    item_inject: HashMap<String, String>,
    /// expressions hoisted by (whitespace-free) source text into external_body helpers (R7/R12 variant)
    #[serde(default)]
    expr_hoists: Vec<ExprHoist>,
    /// trait impls whose methods are additionally emitted as an inherent copy `vx_<name>` carrying the
    /// contract (R16): Verus forbids `requires` on trait-impl methods. The original stays (external_body).
    #[serde(default)]
    inherent_copy: Vec<String>,
    /// phf_set! statics replaced by a generated word-set stub (R9): item key -> language prefix
    #[serde(default)]
    phf_stub: HashMap<String, String>,
    /// bitflags! invocations replaced by a generated plain struct with verified methods (R9)
    #[serde(default)]
    bitflags_stub: bool,
    /// R18 variant: bring in `vx_lit_<name>()` equations instead of character facts
    #[serde(default)]
    strlit_named: bool,
    /// literals whose word constant `w_<name>` + bridging lemma `vx_lit_<name>` are defined by the overlay
    #[serde(default)]
    known_lits: Vec<String>,
    /// rewrite `.parse()` into vx_parse_f64 (R20)
    #[serde(default)]
    parse_f64: bool,
    /// a keep list also keeps free functions / constants it does not name (helpers added later)
    #[serde(default)]
    keep_helpers: bool,
    /// generate entry facts for the string literals of every verified function (R18)
    #[serde(default)]
    strlit_facts: bool,
    #[serde(default)]
    outlines: Vec<Outline>,
    /// functions whose tail `loop` leaves with `break <value>` (R11)
    #[serde(default)]
    break_to_return: Vec<String>,
    /// source texts (whitespace-free) of places of type &str / String sliced with ranges (R22)
    #[serde(default)]
    str_places: Vec<String>,
    /// traits that get an explicit `: Sized` supertrait (R15; implied by their method signatures)
    #[serde(default)]
    trait_sized: Vec<String>,
}

#[derive(Deserialize, Clone)]
struct ExprHoist {
    in_fn: String,
    /// whitespace-free source text of the expression
    text: String,
    name: String,
    #[serde(default)]
    generics: String,
    sig: String,
    #[serde(default)]
    spec: String,
    /// call arguments (the free variables of the expression, same names as the helper's parameters)
    args: String,
    /// when set, the helper is emitted as a method `impl <method_of> { fn name(&self, ..) }` and called as self.name(args)
    #[serde(default)]
    method_of: String,
}

/// R21 (outlining): the first `match` with at least `min_arms` arms inside `in_fn` becomes the body of a generated
/// method (verified, not external); locals assigned inside are passed by `&mut` and dereferenced in the body.
#[derive(Deserialize, Clone)]
struct Outline {
    in_fn: String,
    name: String,
    method_of: String,
    /// signature after the name, e.g. "(&self, lemma: &str, b: &mut DigitString) -> (r: Result<(), Error>)"
    sig: String,
    #[serde(default)]
    spec: String,
    /// call arguments
    args: String,
    #[serde(default)]
    mut_vars: Vec<String>,
    #[serde(default = "default_min_arms")]
    min_arms: usize,
    #[serde(default)]
    entry: String,
    #[serde(default)]
    attrs: String,
}
fn default_min_arms() -> usize {
    8
}

#[derive(Deserialize, Clone)]
struct ChainHoist {
    in_fn: String,
    /// whitespace-free source text of the expression to hoist, with `$recv` marking the receiver
    /// e.g. "$recv.enumerate()" ; the receiver is the maximal prefix expression
    suffix: String,
    name: String,
    generics: String,
    sig: String,
    #[serde(default)]
    spec: String,
    #[serde(default)]
    by_ref: bool,
    /// extra arguments (free variables of the suffix) passed after the receiver
    #[serde(default)]
    args: String,
}

#[derive(Serialize, Default)]
struct Output {
    text: String,
    helpers: String,
    log: Vec<String>,
    fns: Vec<FnInfo>,
    items: Vec<String>,
    warnings: Vec<String>,
    errors: Vec<String>,
    /// literal `match`es on strings seen in verified functions: for each arm its literal patterns (None: binding / wildcard arm)
    matches: Vec<MatchInfo>,
}

#[derive(Serialize, Clone)]
struct MatchInfo {
    in_fn: String,
    line: usize,
    arms: Vec<Option<Vec<String>>>,
}

#[derive(Serialize, Clone)]
struct FnInfo {
    key: String,
    line: usize,
    end_line: usize,
    contracted: bool,
    external: bool,
    loops: usize,
    /// declaration without body (trait method signature): a contract, not a verified function
    decl: bool,
}

enum Part {
    Lit(String),
    Src(usize, usize),
}

struct Edit {
    start: usize,
    end: usize,
    parts: Vec<Part>,
}

struct Ctx<'p> {
    src: &'p str,
    /// R28: line of the original file for every line of `src` (empty: `src` is the file as it is)
    line_map: Vec<usize>,
    plan: &'p Plan,
    edits: Vec<Edit>,
    out: Output,
    fn_stack: Vec<FnState>,
    counter: usize,
    helpers: Vec<String>,
    used_contracts: HashSet<String>,
    used_hoists: HashSet<usize>,
    used_chain_hoists: HashSet<usize>,
    used_expr_hoists: HashSet<String>,
    impl_prefix: Option<String>,
    /// R21: (edit index, outline) recorded while visiting; rendered after the item
    pending_outlines: Vec<(usize, Outline, String, Vec<String>, Vec<(String, usize, usize)>)>,
    outline_lits: Option<Vec<String>>,
    /// variables rewritten to `*v` inside the region being outlined: (region start, region end, names)
    deref_region: Option<(usize, usize, Vec<String>)>,
    used_outlines: HashSet<String>,
    /// pass A of R16: every fn of the item is external and gets no contract
    force_plain: bool,
    /// pass B of R16: emit the inherent copy
    copy_mode: bool,
    copy_names: Vec<String>,
    copy_assoc: HashMap<String, String>,
}

struct FnState {
    body_start: Option<usize>,
    strlits: Vec<String>,
    rename_self: bool,
    decl: bool,
    key: String,
    loop_ord: usize,
    chain_ord: usize,
    contract: Option<Contract>,
    external: bool,
    /// spans of closure-chains already handled (to find outermost only)
    handled_chain_end: usize,
    /// top-level `let x = <init>;` statements of the body (for R21b)
    lets: Vec<LetInfo>,
    /// R32: the tail expression is `X.map(|x| E)` and the function returns Result / Option: (span, returns Result)
    tail_map: Option<(usize, usize, bool)>,
    /// R33: the body ends in `while let P = E { B }` (no break, no label) followed by the tail expression T: (start of the while, span of T)
    tail_while: Option<(usize, usize, usize)>,
}

#[derive(Clone)]
struct LetInfo {
    name: String,
    stmt_end: usize,
    init: (usize, usize),
    pure_init: bool,
    mutable: bool,
    idents: Vec<String>,
}

/// R21b: an initializer that may be evaluated a second time inside an outlined method: built from names, literals, operators,
/// field accesses, references and calls of a fixed list of query methods that take `&self` and have no effect
fn expr_is_pure(e: &syn::Expr) -> bool {
    const QUERIES: [&str; 22] = [
        "contains", "peek", "is_empty", "is_null", "len", "is_none", "is_some", "is_free", "is_range_free", "is_position_free", "bits",
        "is_ordinal", "is_fraction", "ends_with", "starts_with", "as_str", "as_bytes", "is_ok", "is_err", "intersects", "is_all", "clone",
    ];
    match e {
        syn::Expr::Path(_) | syn::Expr::Lit(_) => true,
        syn::Expr::Paren(p) => expr_is_pure(&p.expr),
        syn::Expr::Unary(u) => expr_is_pure(&u.expr),
        syn::Expr::Binary(b) => {
            !matches!(
                b.op,
                syn::BinOp::AddAssign(_) | syn::BinOp::SubAssign(_) | syn::BinOp::MulAssign(_) | syn::BinOp::DivAssign(_) | syn::BinOp::RemAssign(_)
                    | syn::BinOp::BitXorAssign(_) | syn::BinOp::BitAndAssign(_) | syn::BinOp::BitOrAssign(_) | syn::BinOp::ShlAssign(_) | syn::BinOp::ShrAssign(_)
            ) && expr_is_pure(&b.left) && expr_is_pure(&b.right)
        }
        syn::Expr::Field(f) => expr_is_pure(&f.base),
        syn::Expr::Reference(r) => r.mutability.is_none() && expr_is_pure(&r.expr),
        syn::Expr::Cast(c) => expr_is_pure(&c.expr),
        syn::Expr::MethodCall(m) => QUERIES.contains(&m.method.to_string().as_str()) && expr_is_pure(&m.receiver) && m.args.iter().all(expr_is_pure),
        // the per-language `lemmatize(&str) -> &str` is a function of its argument (its contract says which)
        syn::Expr::Call(c) => matches!(&*c.func, syn::Expr::Path(p) if p.path.is_ident("lemmatize")) && c.args.iter().all(expr_is_pure),
        _ => false,
    }
}

fn idents_of(ts: proc_macro2::TokenStream, out: &mut Vec<String>) {
    for t in ts {
        match t {
            proc_macro2::TokenTree::Ident(i) => out.push(i.to_string()),
            proc_macro2::TokenTree::Group(g) => idents_of(g.stream(), out),
            _ => {}
        }
    }
}

fn br(s: Span) -> (usize, usize) {
    let r = s.byte_range();
    (r.start, r.end)
}

fn squash(s: &str) -> String {
    s.chars().filter(|c| !c.is_whitespace()).collect()
}

impl<'p> Ctx<'p> {
    fn line_of(&self, off: usize) -> usize {
        let l = self.src[..off].bytes().filter(|b| *b == b'\n').count() + 1;
        if self.line_map.is_empty() { l } else { self.line_map[(l - 1).min(self.line_map.len() - 1)] }
    }
    fn text(&self, s: usize, e: usize) -> &'p str {
        &self.src[s..e]
    }
    fn log(&mut self, off: usize, rule: &str, what: &str) {
        let l = self.line_of(off);
        let f = self.fn_stack.last().map(|f| f.key.clone()).unwrap_or_default();
        self.out.log.push(format!("{}:{} {} {} {}", short(&self.plan.file), l, rule, f, what));
    }
    fn insert(&mut self, at: usize, text: String) {
        self.edits.push(Edit { start: at, end: at, parts: vec![Part::Lit(text)] });
    }
    fn replace(&mut self, s: usize, e: usize, parts: Vec<Part>) {
        self.edits.push(Edit { start: s, end: e, parts });
    }
    fn cur_fn(&self) -> String {
        self.fn_stack.last().map(|f| f.key.clone()).unwrap_or_default()
    }
    fn in_verified_fn(&self) -> bool {
        match self.fn_stack.last() {
            Some(f) => !f.external,
            None => false,
        }
    }

    fn is_external(&self, key: &str) -> bool {
        if self.plan.external.iter().any(|k| k == key) {
            return true;
        }
        if let Some(c) = self.plan.contracts.get(key) {
            if c.external {
                return true;
            }
        }
        self.plan.external_all && !self.plan.verify.iter().any(|k| k == key)
    }

    fn enter_fn(
        &mut self,
        key: String,
        attrs_start: usize,
        sig: &syn::Signature,
        block: Option<&syn::Block>,
        whole: (usize, usize),
    ) {
        let contract = if self.force_plain { None } else { self.plan.contracts.get(&key).cloned() };
        let external = self.force_plain || self.is_external(&key);
        if self.copy_mode {
            let (is, ie) = br(sig.ident.span());
            self.replace(is, ie, vec![Part::Lit(format!("vx_{}", sig.ident))]);
        }
        if contract.is_some() {
            self.used_contracts.insert(key.clone());
        }
        let mut attrs = String::new();
        if self.force_plain {
            attrs.push_str(&format!("// (original of {}; verified through its inherent copy below, rule R16)\n", key));
        } else {
            attrs.push_str(&format!("// @fn {}\n", key));
        }
        if external && block.is_some() {
            attrs.push_str("#[verifier::external_body]\n");
        }
        if let Some(c) = &contract {
            if !c.attrs.is_empty() {
                attrs.push_str(&c.attrs);
                attrs.push('\n');
            }
        }
        self.insert(attrs_start, attrs);
        // R5: `mut self` receiver
        let mut mut_self = false;
        if let Some(syn::FnArg::Receiver(r)) = sig.inputs.first() {
            if r.reference.is_none() && r.mutability.is_some() && !external {
                let (s, e) = br(r.span());
                self.replace(s, e, vec![Part::Lit("self".into())]);
                mut_self = true;
            }
        }
        if let Some(c) = &contract {
            if let (Some(r), syn::ReturnType::Type(_, ty)) = (&c.ret, &sig.output) {
                let (s, e) = br(ty.span());
                self.replace(
                    s,
                    e,
                    vec![Part::Lit(format!("({}: ", r)), Part::Src(s, e), Part::Lit(")".into())],
                );
            }
        }
        if let Some(b) = block {
            let (bs, _be) = br(b.span());
            if let Some(c) = &contract {
                if !c.pin_body.is_empty() {
                    let (s0, e0) = br(b.span());
                    let body = squash(self.text(s0 + 1, e0 - 1));
                    let want = if c.pin_body.trim() == "<empty>" { String::new() } else { squash(&c.pin_body) };
                    if body != want {
                        self.out.errors.push(format!(
                            "lost anchor: body of `{}` is no longer the text its assumed spec was written for: `{}`", key, body
                        ));
                    }
                }
                if !c.spec.trim().is_empty() {
                    self.insert(bs, format!("\n{}\n", c.spec.trim_end()));
                }
                // `//@ after N`: proof text placed after the N-th top-level statement of the body (0-based)
                if !external {
                    for (k, t) in c.loops.iter() {
                        if let Some(n) = k.strip_prefix('s').and_then(|x| x.parse::<usize>().ok()) {
                            match b.stmts.get(n) {
                                Some(st) => {
                                    let (_, se) = br(st.span());
                                    self.insert(se, format!("\n{}\n", t.trim_end()));
                                }
                                None => self.out.errors.push(format!("lost anchor: statement {} of `{}` (body has {} statements)", n, key, b.stmts.len())),
                            }
                        }
                    }
                }
                // (entry text is inserted in leave_fn, after the generated string-literal facts)
                if !c.exit.trim().is_empty() && !external {
                    let tail = match b.stmts.last() {
                        Some(syn::Stmt::Expr(_, None)) => !matches!(sig.output, syn::ReturnType::Default),
                        _ => false,
                    };
                    if tail {
                        // R26: `{ ...; E }` -> `{ ...; let vx_ret = E; <exit hint>; vx_ret }` (the hint may mention vx_ret)
                        if let Some(syn::Stmt::Expr(te, None)) = b.stmts.last() {
                            let (ts, te_) = br(te.span());
                            self.insert(ts, "let vx_ret = ".into());
                            self.insert(te_, format!(";\n{}\nvx_ret", c.exit.trim_end()));
                            self.out.log.push(format!("{}:{} R26 tail expression of {} bound to vx_ret so that the exit hint can follow it", short(&self.plan.file), self.line_of(ts), key));
                        }
                    } else {
                        let (_, be) = br(b.span());
                        self.insert(be - 1, format!("\n{}\n", c.exit.trim_end()));
                    }
                }
            }
            if mut_self {
                self.insert(bs + 1, " let mut self_ = self; ".into());
                self.out.log.push(format!(
                    "{}:{} R5 {} `mut self` -> `let mut self_ = self`",
                    short(&self.plan.file),
                    self.line_of(bs),
                    key
                ));
            }
        } else if let Some(c) = &contract {
            // trait method declaration without body: spec goes before the `;`
            if !c.spec.trim().is_empty() {
                self.insert(whole.1 - 1, format!("\n{}\n", c.spec.trim_end()));
            }
        }
        let mut lets: Vec<LetInfo> = Vec::new();
        if let Some(b) = block {
            for st in &b.stmts {
                if let syn::Stmt::Local(l) = st {
                    let pat = match &l.pat {
                        syn::Pat::Type(pt) => &*pt.pat,
                        p => p,
                    };
                    if let (syn::Pat::Ident(pi), Some(init)) = (pat, &l.init) {
                        if pi.by_ref.is_none() && pi.subpat.is_none() && init.diverge.is_none() {
                            let mut ids = Vec::new();
                            idents_of(quote::ToTokens::to_token_stream(&*init.expr), &mut ids);
                            lets.push(LetInfo {
                                name: pi.ident.to_string(),
                                stmt_end: br(st.span()).1,
                                init: br(init.expr.span()),
                                pure_init: expr_is_pure(&init.expr),
                                mutable: pi.mutability.is_some(),
                                idents: ids,
                            });
                        }
                    }
                }
            }
        }
        let tail_map = {
            let ret = match &sig.output {
                syn::ReturnType::Type(_, t) => match &**t {
                    syn::Type::Path(tp) => tp.path.segments.last().map(|s| s.ident.to_string()),
                    _ => None,
                },
                _ => None,
            };
            match (ret.as_deref(), block.and_then(|b| b.stmts.last())) {
                (Some(r @ ("Result" | "Option")), Some(syn::Stmt::Expr(syn::Expr::MethodCall(m), None))) if m.method == "map" && m.args.len() == 1 => {
                    let (ts, te) = br(m.span());
                    Some((ts, te, r == "Result"))
                }
                _ => None,
            }
        };
        let tail_while = {
            fn has_break(ts: proc_macro2::TokenStream) -> bool {
                ts.into_iter().any(|t| match t {
                    proc_macro2::TokenTree::Ident(i) => i == "break" || i == "continue",
                    proc_macro2::TokenTree::Group(g) => has_break(g.stream()),
                    _ => false,
                })
            }
            match block.map(|b| b.stmts.as_slice()) {
                Some([.., syn::Stmt::Expr(syn::Expr::While(w), _), syn::Stmt::Expr(t, None)])
                    if matches!(&*w.cond, syn::Expr::Let(_)) && w.label.is_none() && !has_break(quote::ToTokens::to_token_stream(&w.body))
                        && !matches!(sig.output, syn::ReturnType::Default) =>
                {
                    let (ts, te) = br(t.span());
                    Some((br(w.span()).0, ts, te))
                }
                _ => None,
            }
        };
        self.fn_stack.push(FnState {
            lets,
            tail_map,
            tail_while,
            body_start: block.map(|b| br(b.span()).0),
            strlits: Vec::new(),
            rename_self: mut_self,
            decl: block.is_none(),
            key,
            loop_ord: 0,
            chain_ord: 0,
            contract,
            external,
            handled_chain_end: 0,
        });
        let _ = mut_self;
    }

    fn leave_fn(&mut self, whole: (usize, usize)) {
        let f = self.fn_stack.pop().unwrap();
        if self.plan.strlit_facts && !f.external && !f.strlits.is_empty() {
            if let Some(bs) = f.body_start {
                // ground facts about every string literal of the function (content of `reveal_strlit`, spelled out so
                // that the solver can tell literals apart)
                let mut t = String::from("\n    proof { // generated: string-literal facts (R18)\n");
                for l in &f.strlits {
                    if self.plan.strlit_named {
                        // words are atoms: only the equation literal == named constant is brought in
                        let name = wname(l);
                        t.push_str(&format!("        vx_lit_{name}(); // {:?}\n", l));
                        if l.chars().count() <= 4 && self.plan.known_lits.iter().any(|k| k == l) {
                            // short literals (suffixes, particles): their characters too, so that harmless reorderings of
                            // mutually exclusive suffix tests stay provable
                            t.push_str(&format!("        vx_chars_{name}();\n"));
                        }
                        if !self.plan.known_lits.iter().any(|k| k == l) {
                            let chars: Vec<String> = l.chars().map(|c| format!("{:?}", c)).collect();
                            let body = if chars.is_empty() { "Seq::<char>::empty()".to_string() } else { format!("seq![{}]", chars.join(", ")) };
                            let lit = format!("{:?}", l);
                            self.helpers.push(format!(
                                "// word constant for a literal of the code that the overlay does not name (R18)\npub open spec fn w_{name}() -> Seq<char> {{ {body} }}\npub proof fn vx_lit_{name}() ensures {lit}@ == w_{name}() {{ reveal_strlit({lit}); assert({lit}@ =~= {body}); }}\n"
                            ));
                        }
                        continue;
                    }
                    let chars: Vec<char> = l.chars().collect();
                    let lit = format!("{:?}", l);
                    t.push_str(&format!("        reveal_strlit({lit}); assert({lit}@.len() == {}", chars.len()));
                    for (i, c) in chars.iter().enumerate() {
                        t.push_str(&format!(" && {lit}@[{i}] == {:?}", c));
                    }
                    t.push_str(");\n");
                }
                t.push_str("    }\n");
                self.insert(bs + 1, t);
                self.out.log.push(format!("{}:{} R18 {} entry facts for {} string literals", short(&self.plan.file), self.line_of(bs), f.key, f.strlits.len()));
            }
        }
        if let (Some(c), Some(bs)) = (&f.contract, f.body_start) {
            if !c.entry.trim().is_empty() && !f.external {
                self.insert(bs + 1, format!("\n{}\n", c.entry.trim_end()));
            }
        }
        if let Some(c) = &f.contract {
            for k in c.loops.keys() {
                if k.starts_with('s') {
                    continue; // statement hint (`//@ after N`), checked where it is applied
                }
                let n: usize = k.split('.').next().unwrap_or("").parse().unwrap_or(usize::MAX);
                if n >= f.loop_ord && !f.external {
                    self.out.errors.push(format!(
                        "lost anchor: loop {} of {} (function has {} loops)",
                        k, f.key, f.loop_ord
                    ));
                }
            }
        }
        if self.force_plain {
            return;
        }
        self.out.fns.push(FnInfo {
            key: f.key,
            line: self.line_of(whole.0),
            end_line: self.line_of(whole.1),
            contracted: f.contract.is_some(),
            external: f.external,
            loops: f.loop_ord,
            decl: f.decl,
        });
    }

    fn loop_anchor(&mut self, body: &syn::Block) {
        let (bs, be) = br(body.span());
        let (inv, begin, end) = self.take_loop_text();
        if let Some(t) = inv {
            self.insert(bs, format!("\n{}\n", t.trim_end()));
        }
        // proof hints at the start / end of the loop body (`//@ loop N begin` / `//@ loop N end`)
        if let Some(t) = begin {
            self.insert(bs + 1, format!("\n{}\n", t.trim_end()));
        }
        if let Some(t) = end {
            self.insert(be - 1, format!("\n{}\n", t.trim_end()));
        }
    }

    fn take_loop_text(&mut self) -> (Option<String>, Option<String>, Option<String>) {
        let mut text = (None, None, None);
        if let Some(f) = self.fn_stack.last_mut() {
            let ord = f.loop_ord;
            f.loop_ord += 1;
            if let Some(c) = &f.contract {
                if !f.external {
                    text = (
                        c.loops.get(&ord.to_string()).cloned(),
                        c.loops.get(&format!("{}.begin", ord)).cloned(),
                        c.loops.get(&format!("{}.end", ord)).cloned(),
                    );
                }
            }
        }
        text
    }
}

/// identifier-safe name of a word: ASCII alphanumerics kept, everything else as _uXXXX
fn wname(w: &str) -> String {
    let mut o = String::new();
    for c in w.chars() {
        if c.is_ascii_alphanumeric() {
            o.push(c);
        } else {
            o.push_str(&format!("_u{:04x}", c as u32));
        }
    }
    if o.is_empty() {
        o.push_str("_empty");
    }
    o
}

fn short(p: &str) -> String {
    match p.find("/src/") {
        Some(i) => p[i + 1..].to_string(),
        None => p.to_string(),
    }
}

fn type_key(ty: &syn::Type) -> String {
    match ty {
        syn::Type::Path(p) => p.path.segments.last().map(|s| s.ident.to_string()).unwrap_or_default(),
        syn::Type::Reference(r) => format!("&{}", type_key(&r.elem)),
        other => squash(&quote::quote!(#other).to_string()),
    }
}

fn has_cfg_test(attrs: &[syn::Attribute]) -> bool {
    attrs.iter().any(|a| {
        a.path().is_ident("cfg") && squash(&a.meta.to_token_stream_string()).contains("test")
    })
}

trait TS {
    fn to_token_stream_string(&self) -> String;
}
impl TS for syn::Meta {
    fn to_token_stream_string(&self) -> String {
        quote::quote!(#self).to_string()
    }
}

fn is_str_lit_pat(p: &syn::Pat) -> Option<bool> {
    // Some(true) = str/bytestr literal pattern (or or-pattern of them)
    match p {
        syn::Pat::Lit(l) => match &l.lit {
            syn::Lit::Str(_) | syn::Lit::ByteStr(_) => Some(true),
            _ => Some(false),
        },
        syn::Pat::Or(o) => {
            let mut any = false;
            for c in &o.cases {
                match is_str_lit_pat(c) {
                    Some(true) => any = true,
                    _ => return Some(false),
                }
            }
            Some(any)
        }
        _ => None,
    }
}

fn pat_is_bytes(p: &syn::Pat) -> bool {
    match p {
        syn::Pat::Lit(l) => matches!(&l.lit, syn::Lit::ByteStr(_)),
        syn::Pat::Or(o) => o.cases.iter().any(pat_is_bytes),
        _ => false,
    }
}

fn bytes_lit_text(b: &syn::LitByteStr) -> String {
    let v = b.value();
    if (1..=4).contains(&v.len()) {
        // R4: `b"xy"` -> `&vx_bytes2(b'x', b'y')`: verified helper whose view is the spec sequence d2(x, y)
        let items: Vec<String> = v
            .iter()
            .map(|c| if c.is_ascii_graphic() && *c != b'\'' && *c != b'\\' { format!("b'{}'", *c as char) } else { format!("{}u8", c) })
            .collect();
        return format!("&vx_bytes{}({})", v.len(), items.join(", "));
    }
    let items: Vec<String> = v
        .iter()
        .map(|c| {
            if c.is_ascii_graphic() && *c != b'\'' && *c != b'\\' {
                format!("b'{}'", *c as char)
            } else {
                format!("{}u8", c)
            }
        })
        .collect();
    format!("&[{}]", items.join(", "))
}

fn contains_closure(e: &syn::Expr) -> bool {
    struct F(bool);
    impl<'a> Visit<'a> for F {
        fn visit_expr_closure(&mut self, _: &'a syn::ExprClosure) {
            self.0 = true;
        }
    }
    let mut f = F(false);
    f.visit_expr(e);
    f.0
}

/// does a direct argument of some call in the receiver chain of `m` hold a closure?
fn chain_has_closure_arg(m: &syn::ExprMethodCall) -> bool {
    let mut cur: &syn::Expr = &m.receiver;
    // a path to a `char` method passed as a function (`.all(char::is_whitespace)`) is a closure in all but syntax
    fn fn_path(a: &syn::Expr) -> bool {
        if let syn::Expr::Path(p) = a { p.path.segments.len() == 2 && p.path.segments[0].ident == "char" } else { false }
    }
    if m.args.iter().any(|a| matches!(a, syn::Expr::Closure(_)) || contains_closure(a) || fn_path(a)) {
        return true;
    }
    loop {
        match cur {
            syn::Expr::MethodCall(mc) => {
                if mc.args.iter().any(|a| matches!(a, syn::Expr::Closure(_)) || contains_closure(a) || fn_path(a)) {
                    return true;
                }
                cur = &mc.receiver;
            }
            _ => return false,
        }
    }
}

impl<'ast, 'p> Visit<'ast> for Ctx<'p> {
    fn visit_item_fn(&mut self, i: &'ast syn::ItemFn) {
        let whole = br(i.span());
        let key = i.sig.ident.to_string();
        self.enter_fn(key, whole.0, &i.sig, Some(&i.block), whole);
        visit::visit_item_fn(self, i);
        self.leave_fn(whole);
    }
    fn visit_impl_item_fn(&mut self, i: &'ast syn::ImplItemFn) {
        let whole = br(i.span());
        let key = format!("{}::{}", self.impl_prefix.clone().unwrap_or_default(), i.sig.ident);
        self.enter_fn(key, whole.0, &i.sig, Some(&i.block), whole);
        visit::visit_impl_item_fn(self, i);
        self.leave_fn(whole);
    }
    fn visit_trait_item_fn(&mut self, i: &'ast syn::TraitItemFn) {
        let whole = br(i.span());
        let key = format!("{}::{}", self.impl_prefix.clone().unwrap_or_default(), i.sig.ident);
        self.enter_fn(key, whole.0, &i.sig, i.default.as_ref(), whole);
        visit::visit_trait_item_fn(self, i);
        self.leave_fn(whole);
    }
    fn visit_item_impl(&mut self, i: &'ast syn::ItemImpl) {
        let ty = type_key(&i.self_ty);
        let prefix = match &i.trait_ {
            Some((_, path, _)) => format!(
                "{} for {}",
                path.segments.last().map(|s| s.ident.to_string()).unwrap_or_default(),
                ty
            ),
            None => ty,
        };
        let old = self.impl_prefix.replace(prefix);
        if self.copy_mode {
            if let Some((_, path, for_tok)) = &i.trait_ {
                let (ps, _) = br(path.span());
                let (_, fe) = br(for_tok.span());
                self.replace(ps, fe, vec![Part::Lit(String::new())]);
            }
            self.copy_names.clear();
            self.copy_assoc.clear();
            for it in &i.items {
                match it {
                    syn::ImplItem::Fn(f) => self.copy_names.push(f.sig.ident.to_string()),
                    syn::ImplItem::Type(t) => {
                        let (ts, te) = br(t.ty.span());
                        self.copy_assoc.insert(t.ident.to_string(), self.text(ts, te).to_string());
                        let (s, e) = br(t.span());
                        self.replace(s, e, vec![Part::Lit(String::new())]);
                    }
                    other => {
                        let (s, e) = br(other.span());
                        self.replace(s, e, vec![Part::Lit(String::new())]);
                    }
                }
            }
        }
        visit::visit_item_impl(self, i);
        self.impl_prefix = old;
    }
    fn visit_item_trait(&mut self, i: &'ast syn::ItemTrait) {
        let old = self.impl_prefix.replace(format!("trait {}", i.ident));
        visit::visit_item_trait(self, i);
        self.impl_prefix = old;
    }

    fn visit_attribute(&mut self, a: &'ast syn::Attribute) {
        if a.path().is_ident("derive") && !self.plan.strip_derives.is_empty() {
            if let Ok(list) = a.parse_args_with(
                syn::punctuated::Punctuated::<syn::Path, syn::Token![,]>::parse_terminated,
            ) {
                let keep: Vec<String> = list
                    .iter()
                    .map(|p| quote::quote!(#p).to_string().replace(' ', ""))
                    .filter(|n| !self.plan.strip_derives.contains(n))
                    .collect();
                if keep.len() != list.len() {
                    let (s, e) = br(a.span());
                    let new = if keep.is_empty() {
                        String::new()
                    } else {
                        format!("#[derive({})]", keep.join(", "))
                    };
                    self.replace(s, e, vec![Part::Lit(new)]);
                    self.log(s, "DROP", "derive(..) entries removed");
                }
            }
        }
    }

    fn visit_ident(&mut self, i: &'ast proc_macro2::Ident) {
        let name = i.to_string();
        if name == "int" || name == "nat" {
            let (s, e) = br(i.span());
            if e > s && self.text(s, e) == name {
                self.replace(s, e, vec![Part::Lit(format!("{}_", name))]);
                self.log(s, "R6", "identifier renamed (Verus keyword)");
            }
        } else if let Some(n) = self.plan.ident_renames.get(&name) {
            let (s, e) = br(i.span());
            if e > s && self.text(s, e) == name {
                self.replace(s, e, vec![Part::Lit(n.clone())]);
            }
        }
    }

    fn visit_expr_for_loop(&mut self, f: &'ast syn::ExprForLoop) {
        let fnk = self.cur_fn();
        let rewrite = self.in_verified_fn()
            && self.plan.for_rewrite.iter().any(|k| k == "*" || *k == fnk);
        // R1b: `for (J, &I) in X.iter().enumerate()` / `for (J, I) in X.iter().enumerate()`  ->  index loop
        let mut enumerate_recv: Option<&syn::Expr> = None;
        if let syn::Expr::MethodCall(en) = &*f.expr {
            if en.method == "enumerate" && en.args.is_empty() {
                if let syn::Expr::MethodCall(it) = &*en.receiver {
                    if it.method == "iter" && it.args.is_empty() {
                        enumerate_recv = Some(&it.receiver);
                    }
                }
            }
        }
        if let (true, Some(recv), syn::Pat::Tuple(tp)) = (rewrite, enumerate_recv, &*f.pat) {
            if tp.elems.len() == 2 {
                let (s, e) = br(f.span());
                let (rs, re) = br(recv.span());
                let (bs, be) = br(f.body.span());
                let (p0s, p0e) = br(tp.elems[0].span());
                let ord = self.fn_stack.last().map(|f| f.loop_ord).unwrap_or(0);
                let k = format!("vx_k{}", ord);
                let second = match &tp.elems[1] {
                    syn::Pat::Reference(r) => {
                        let (is, ie) = br(r.pat.span());
                        Some((self.text(is, ie).to_string(), false))
                    }
                    syn::Pat::Ident(pi) => Some((pi.ident.to_string(), true)),
                    syn::Pat::Wild(_) => Some(("_".to_string(), true)),
                    _ => None,
                };
                if let Some((name, by_ref)) = second {
                    let (inv0, hb, he) = self.take_loop_text();
                    let inv = inv0.map(|t| format!("\n{}\n", t.trim_end())).unwrap_or_default();
                    if let Some(t) = hb {
                        self.insert(bs + 1, format!("\n{}\n", t.trim_end()));
                    }
                    if let Some(t) = he {
                        self.insert(be - 1, format!("\n{}\n", t.trim_end()));
                    }
                    let recv_txt = self.text(rs, re).to_string();
                    self.replace(
                        s,
                        e,
                        vec![
                            Part::Lit(format!("{{ let mut {k}: usize = 0; while {k} < ({recv_txt}).len() {inv} {{ let ")),
                            Part::Src(p0s, p0e),
                            Part::Lit(format!(" = {k}; let {name} = {}({recv_txt})[{k}]; {k} += 1; ", if by_ref { "&" } else { "" })),
                            Part::Src(bs, be),
                            Part::Lit(" } }".into()),
                        ],
                    );
                    self.log(s, "R1b", "for (j, x) in v.iter().enumerate() -> index loop");
                    visit::visit_expr_for_loop(self, f);
                    return;
                }
            }
        }
        if rewrite {
            let (s, e) = br(f.span());
            let (ps, pe) = br(f.pat.span());
            let (es, ee) = br(f.expr.span());
            let (bs, be) = br(f.body.span());
            let ord = self.fn_stack.last().map(|f| f.loop_ord).unwrap_or(0);
            let it = format!("vx_it{}", ord);
            // `//@ loop N after`: proof text right after the loop (inside the block that holds the iterator variable)
            let after = self
                .fn_stack
                .last()
                .and_then(|f| if f.external { None } else { f.contract.as_ref().and_then(|c| c.loops.get(&format!("{}.after", ord)).cloned()) })
                .map(|t| format!("\n{}\n", t.trim_end()))
                .unwrap_or_default();
            self.replace(
                s,
                e,
                vec![
                    Part::Lit(format!("{{ let mut {it} = ")),
                    Part::Lit("(".into()),
                    Part::Src(es, ee),
                    Part::Lit(format!(").into_iter(); while let Some(")),
                    Part::Src(ps, pe),
                    Part::Lit(format!(") = {it}.next() ")),
                    Part::Src(bs, be),
                    Part::Lit(format!("{after} }}")),
                ],
            );
            self.log(s, "R1", "for -> while let Some(..) = it.next()");
        }
        self.loop_anchor(&f.body);
        visit::visit_expr_for_loop(self, f);
    }
    fn visit_expr_break(&mut self, b: &'ast syn::ExprBreak) {
        if let (Some(_), true) = (&b.expr, self.in_verified_fn()) {
            let fnk = self.cur_fn();
            if self.plan.break_to_return.iter().any(|k| *k == fnk) {
                let (s, _) = br(b.break_token.span());
                self.replace(s, s + 5, vec![Part::Lit("return".into())]);
                self.log(s, "R11", "break <value> (loop is the function's tail) -> return <value>");
            }
        }
        visit::visit_expr_break(self, b);
    }

    fn visit_expr_index(&mut self, ix: &'ast syn::ExprIndex) {
        // R22: `s[a..b]` on a place listed in plan.str_places -> vx_str_slice(s, a, b) / vx_str_slice_from(s, a)
        if self.in_verified_fn() {
            let (bs, be) = br(ix.expr.span());
            let base = squash(self.text(bs, be));
            if self.plan.str_places.iter().any(|v| *v == base) {
                let mut idx: &syn::Expr = &ix.index;
                while let syn::Expr::Paren(p) = idx {
                    idx = &p.expr;
                }
                if let syn::Expr::Range(r) = idx {
                    let (s, e) = br(ix.span());
                    match (&r.start, &r.end) {
                        (Some(a), Some(b)) => {
                            let (as_, ae) = br(a.span());
                            let (bs2, be2) = br(b.span());
                            self.replace(s, e, vec![Part::Lit("*vx_str_slice(".into()), Part::Src(bs, be), Part::Lit(", ".into()), Part::Src(as_, ae), Part::Lit(", ".into()), Part::Src(bs2, be2), Part::Lit(")".into())]);
                            self.log(s, "R22", "str[a..b] -> vx_str_slice(s, a, b)");
                        }
                        (Some(a), None) => {
                            let (as_, ae) = br(a.span());
                            self.replace(s, e, vec![Part::Lit("*vx_str_slice_from(".into()), Part::Src(bs, be), Part::Lit(", ".into()), Part::Src(as_, ae), Part::Lit(")".into())]);
                            self.log(s, "R22", "str[a..] -> vx_str_slice_from(s, a)");
                        }
                        _ => {}
                    }
                }
            }
        }
        visit::visit_expr_index(self, ix);
    }

    fn visit_expr_while(&mut self, w: &'ast syn::ExprWhile) {
        // a trailing `while let P = E { B }` followed by the tail expression T of a contracted function with loop invariants: after the loop
        // Verus knows the invariants only, not that the pattern stopped matching, so postconditions that need that fact cannot be proved
        // whatever the code does (the equivalent `loop { if let .. else { break T } }` keeps it). Unsupported construct: undecided, not a verdict.
        let hit = self.fn_stack.last().and_then(|f| f.tail_while).filter(|t| t.0 == br(w.span()).0);
        let has_inv = self.fn_stack.last().map(|f| !f.external && f.contract.as_ref().map(|c| !c.loops.is_empty()).unwrap_or(false)).unwrap_or(false);
        if hit.is_some() && has_inv && self.in_verified_fn() {
            let ln = self.line_of(br(w.span()).0);
            let key = self.cur_fn();
            self.out.errors.push(format!("unsupported construct: {} ends in a `while let` loop (line {}) followed by a tail expression; the loop invariants of its contract were written for a `loop` with `break`", key, ln));
        }
        self.loop_anchor(&w.body);
        visit::visit_expr_while(self, w);
    }
    fn visit_expr_loop(&mut self, l: &'ast syn::ExprLoop) {
        self.loop_anchor(&l.body);
        visit::visit_expr_loop(self, l);
    }

    fn visit_expr_match(&mut self, m: &'ast syn::ExprMatch) {
        let mut str_match = false;
        for arm in &m.arms {
            if is_str_lit_pat(&arm.pat) == Some(true) {
                str_match = true;
            }
        }
        if str_match && !self.plan.no_match_rewrite && self.in_verified_fn() {
            // every arm must be: literal/or-literal [if guard], `_` [if guard], or ident [if guard]
            let mut ok = true;
            for arm in &m.arms {
                match &arm.pat {
                    syn::Pat::Wild(_) => {}
                    syn::Pat::Ident(pi) if pi.subpat.is_none() && pi.by_ref.is_none() => {}
                    p if is_str_lit_pat(p) == Some(true) => {}
                    _ => ok = false,
                }
            }
            if !ok {
                let (s, _) = br(m.span());
                let l = self.line_of(s);
                self.out.errors.push(format!(
                    "unsupported construct: match at line {} mixes literal and structured patterns",
                    l
                ));
            } else {
                self.counter += 1;
                let mv = format!("vx_m{}", self.counter);
                let (s, e) = br(m.span());
                let (ss, se) = br(m.expr.span());
                {
                    let mut arms_info: Vec<Option<Vec<String>>> = Vec::new();
                    for arm in &m.arms {
                        let cases: Vec<&syn::Pat> = match &arm.pat {
                            syn::Pat::Or(o) => o.cases.iter().collect(),
                            other => vec![other],
                        };
                        let mut lits: Vec<String> = Vec::new();
                        let mut all = true;
                        for c in cases {
                            if let syn::Pat::Lit(syn::ExprLit { lit: syn::Lit::Str(ls), .. }) = c {
                                lits.push(ls.value());
                            } else {
                                all = false;
                            }
                        }
                        arms_info.push(if all { Some(lits) } else { None });
                    }
                    let in_fn = self.cur_fn();
                    let line = self.line_of(s);
                    self.out.matches.push(MatchInfo { in_fn, line, arms: arms_info });
                }
                let mut parts = vec![
                    Part::Lit(format!("{{ let {mv} = ")),
                    Part::Src(ss, se),
                    Part::Lit(";\n".into()),
                ];
                let n = m.arms.len();
                let mut closed = false;
                for (k, arm) in m.arms.iter().enumerate() {
                    let (bs, be) = br(arm.body.span());
                    let mut cond: Vec<Part> = Vec::new();
                    let mut bind = String::new();
                    let bytes = pat_is_bytes(&arm.pat);
                    match &arm.pat {
                        syn::Pat::Wild(_) => {}
                        syn::Pat::Ident(pi) => {
                            bind = format!("let {} = {mv}; ", pi.ident);
                        }
                        p => {
                            let cases: Vec<&syn::Pat> = match p {
                                syn::Pat::Or(o) => o.cases.iter().collect(),
                                other => vec![other],
                            };
                            cond.push(Part::Lit("(".into()));
                            for (ci, c) in cases.iter().enumerate() {
                                if ci > 0 {
                                    cond.push(Part::Lit(" || ".into()));
                                }
                                let (cs, ce) = br(c.span());
                                if bytes {
                                    cond.push(Part::Lit(format!("vx_eq_bytes({mv}, ")));
                                    cond.push(Part::Src(cs, ce));
                                    cond.push(Part::Lit(")".into()));
                                } else if matches!(c, syn::Pat::Lit(syn::ExprLit { lit: syn::Lit::Str(_), .. })) {
                                    // R24: str equality through the typed helper (the generic PartialEq axioms are costly)
                                    cond.push(Part::Lit(format!("vx_eq_str({mv}, ")));
                                    cond.push(Part::Src(cs, ce));
                                    cond.push(Part::Lit(")".into()));
                                } else {
                                    cond.push(Part::Lit(format!("{mv} == ")));
                                    cond.push(Part::Src(cs, ce));
                                }
                            }
                            cond.push(Part::Lit(")".into()));
                        }
                    }
                    if let Some((_, g)) = &arm.guard {
                        let (gs, ge) = br(g.span());
                        if !bind.is_empty() {
                            // guard may mention the binding: evaluate with the binding in scope
                            cond.push(Part::Lit(format!("{{ {bind}")));
                            cond.push(Part::Src(gs, ge));
                            cond.push(Part::Lit(" }".into()));
                        } else {
                            if !cond.is_empty() {
                                cond.push(Part::Lit(" && ".into()));
                            }
                            cond.push(Part::Lit("(".into()));
                            cond.push(Part::Src(gs, ge));
                            cond.push(Part::Lit(")".into()));
                        }
                    }
                    if k > 0 {
                        parts.push(Part::Lit(" else ".into()));
                    }
                    let last_unconditional = cond.is_empty();
                    if !last_unconditional {
                        parts.push(Part::Lit("if ".into()));
                        parts.extend(cond);
                        parts.push(Part::Lit(" ".into()));
                    }
                    parts.push(Part::Lit(format!("{{ {bind}")));
                    parts.push(Part::Src(bs, be));
                    parts.push(Part::Lit(" }".into()));
                    if last_unconditional {
                        closed = true;
                        if k + 1 != n {
                            self.out.warnings.push(format!(
                                "match at line {}: arms after an irrefutable arm dropped",
                                self.line_of(s)
                            ));
                        }
                        break;
                    }
                }
                if !closed {
                    let l = self.line_of(s);
                    self.out.errors.push(format!(
                        "unsupported construct: literal match at line {} has no irrefutable last arm",
                        l
                    ));
                }
                parts.push(Part::Lit("\n}".into()));
                self.replace(s, e, parts);
                self.log(s, "R2", &format!("match on literals ({} arms) -> if-chain", n));
            }
        }
        visit::visit_expr_match(self, m);
    }

    fn visit_lit_str(&mut self, l: &'ast syn::LitStr) {
        if let Some(v) = self.outline_lits.as_mut() {
            let x = l.value();
            if !v.contains(&x) {
                v.push(x);
            }
            return;
        }
        if let Some(f) = self.fn_stack.last_mut() {
            let v = l.value();
            if !f.strlits.contains(&v) && v.chars().count() <= 40 {
                f.strlits.push(v);
            }
        }
    }

    fn visit_expr_lit(&mut self, l: &'ast syn::ExprLit) {
        if let syn::Lit::Str(ls) = &l.lit {
            self.visit_lit_str(ls);
        }
        if let syn::Lit::ByteStr(b) = &l.lit {
            if self.in_verified_fn() {
                let (s, e) = br(l.span());
                self.replace(s, e, vec![Part::Lit(bytes_lit_text(b))]);
                self.log(s, "R4", "byte-string literal -> array literal");
            }
        }
    }

    // R27: `const X: &T` / `static X: &T` (items and impl items): the elided lifetime is 'static; inside verus!{} it must be written
    fn visit_item_const(&mut self, c: &'ast syn::ItemConst) {
        self.static_ref(&c.ty);
        visit::visit_item_const(self, c);
    }
    fn visit_item_static(&mut self, c: &'ast syn::ItemStatic) {
        self.static_ref(&c.ty);
        visit::visit_item_static(self, c);
    }
    fn visit_impl_item_const(&mut self, c: &'ast syn::ImplItemConst) {
        self.static_ref(&c.ty);
        visit::visit_impl_item_const(self, c);
    }

    fn visit_expr_binary(&mut self, b: &'ast syn::ExprBinary) {
        // R4b: X == b"lit" / X != b"lit"  -> vx_eq_bytes
        let is_bytes = |e: &syn::Expr| {
            matches!(e, syn::Expr::Lit(syn::ExprLit { lit: syn::Lit::ByteStr(_), .. }))
        };
        if matches!(b.op, syn::BinOp::Lt(_)) && (is_bytes(&b.right) || is_bytes(&b.left)) && self.in_verified_fn() {
            let (s, e) = br(b.span());
            let (ls, le) = br(b.left.span());
            let (rs, re) = br(b.right.span());
            self.replace(
                s,
                e,
                vec![Part::Lit("vx_lt_bytes(".into()), Part::Src(ls, le), Part::Lit(", ".into()), Part::Src(rs, re), Part::Lit(")".into())],
            );
            self.log(s, "R4c", "slice < byte-string literal -> vx_lt_bytes (lexicographic order)");
        }
        let eq = matches!(b.op, syn::BinOp::Eq(_));
        let ne = matches!(b.op, syn::BinOp::Ne(_));
        if (eq || ne) && (is_bytes(&b.right) || is_bytes(&b.left)) && self.in_verified_fn() {
            let (s, e) = br(b.span());
            let (ls, le) = br(b.left.span());
            let (rs, re) = br(b.right.span());
            self.replace(
                s,
                e,
                vec![
                    Part::Lit(format!("{}vx_eq_bytes(", if ne { "!" } else { "" })),
                    Part::Src(ls, le),
                    Part::Lit(", ".into()),
                    Part::Src(rs, re),
                    Part::Lit(")".into()),
                ],
            );
            self.log(s, "R4b", "comparison with byte-string literal -> vx_eq_bytes");
        }
        // R24: X == "lit" / X != "lit" -> [!]vx_eq_str(X, "lit")  (typed helper: the verifier's generic PartialEq axioms are costly)
        let is_str = |e: &syn::Expr| matches!(e, syn::Expr::Lit(syn::ExprLit { lit: syn::Lit::Str(_), .. }));
        if ne && (is_str(&b.right) || is_str(&b.left)) && self.in_verified_fn() {
            let (s, e) = br(b.span());
            let (ls, le) = br(b.left.span());
            let (rs, re) = br(b.right.span());
            self.replace(
                s,
                e,
                vec![Part::Lit("!vx_eq_str(".into()), Part::Src(ls, le), Part::Lit(", ".into()), Part::Src(rs, re), Part::Lit(")".into())],
            );
            self.log(s, "R24", "X != \"lit\" -> !vx_eq_str(X, \"lit\")");
        }
        if eq && (is_str(&b.right) || is_str(&b.left)) && self.in_verified_fn() {
            let (s, e) = br(b.span());
            let (ls, le) = br(b.left.span());
            let (rs, re) = br(b.right.span());
            self.replace(
                s,
                e,
                vec![Part::Lit("vx_eq_str(".into()), Part::Src(ls, le), Part::Lit(", ".into()), Part::Src(rs, re), Part::Lit(")".into())],
            );
            self.log(s, "R24", "X == \"lit\" -> vx_eq_str(X, \"lit\")");
        }
        visit::visit_expr_binary(self, b);
    }

    // R26b: the exit hint of a contracted function also goes before every explicit `return` (an early return is an exit too)
    fn visit_expr_return(&mut self, r: &'ast syn::ExprReturn) {
        let exit = match self.fn_stack.last() {
            Some(f) if !f.external => f.contract.as_ref().filter(|c| c.exit_all).map(|c| c.exit.trim_end().to_string()).unwrap_or_default(),
            _ => String::new(),
        };
        if !exit.trim().is_empty() && self.in_verified_fn() {
            let (s, e) = br(r.span());
            match &r.expr {
                Some(ex) => {
                    let (es, ee) = br(ex.span());
                    self.replace(s, e, vec![Part::Lit("{ let vx_ret = ".into()), Part::Src(es, ee), Part::Lit(format!(";\n{}\nreturn vx_ret; }}", exit))]);
                }
                None => self.replace(s, e, vec![Part::Lit(format!("{{ {}\nreturn; }}", exit))]),
            }
            self.log(s, "R26b", "exit hint repeated before an explicit return");
        }
        visit::visit_expr_return(self, r);
    }

    fn visit_expr_method_call(&mut self, m: &'ast syn::ExprMethodCall) {
        let (s, e) = br(m.span());
        let verified = self.in_verified_fn();
        if self.copy_mode {
            if let syn::Expr::Path(rp) = &*m.receiver {
                if rp.path.is_ident("self") && self.copy_names.iter().any(|n| m.method == n.as_str()) {
                    let (ms, me) = br(m.method.span());
                    self.replace(ms, me, vec![Part::Lit(format!("vx_{}", m.method))]);
                    self.log(ms, "R16", "recursive call goes to the inherent copy");
                }
            }
        }
        // R29: Option combinators taking a closure, with a one-identifier closure parameter -> the `match` std defines them as
        //   o.is_some_and(|x| E) -> match o { Some(x) => E, None => false }      o.is_none_or(|x| E) -> .. None => true
        //   o.map_or(D, |x| E)   -> match o { Some(x) => E, None => D }
        if verified {
            let name = m.method.to_string();
            let shape = match (name.as_str(), m.args.len()) {
                ("is_some_and", 1) => Some((0usize, Some("false"))),
                ("is_none_or", 1) => Some((0usize, Some("true"))),
                ("map_or", 2) => Some((1usize, None)),
                _ => None,
            };
            if let Some((ci, dflt)) = shape {
                if let syn::Expr::Closure(c) = &m.args[ci] {
                    let simple = c.inputs.len() == 1 && matches!(&c.inputs[0], syn::Pat::Ident(pi) if pi.by_ref.is_none() && pi.subpat.is_none())
                        && c.capture.is_none() && c.asyncness.is_none() && matches!(c.output, syn::ReturnType::Default);
                    if simple {
                        let (rs, re) = br(m.receiver.span());
                        let (ps, pe) = br(c.inputs[0].span());
                        let (bs, be) = br(c.body.span());
                        let mut parts = vec![Part::Lit("(match ".into()), Part::Src(rs, re), Part::Lit(" { Some(".into()), Part::Src(ps, pe), Part::Lit(") => { ".into()), Part::Src(bs, be), Part::Lit(" }, None => { ".into())];
                        match dflt {
                            Some(d) => parts.push(Part::Lit(d.into())),
                            None => { let (ds_, de_) = br(m.args[0].span()); parts.push(Part::Src(ds_, de_)); }
                        }
                        parts.push(Part::Lit(" } })".into()));
                        self.replace(s, e, parts);
                        self.log(s, "R29", &format!("Option::{}(closure) -> match (std's definition)", name));
                        visit::visit_expr_method_call(self, m);
                        return;
                    }
                }
            }
        }
        // R32: a function that returns Result (Option) and ends in `X.map(|x| E)`: X is a Result (Option) too, and `map` is by definition
        //   match X { Ok(x) => Ok(E), Err(e) => Err(e) }      (match X { Some(x) => Some(E), None => None })
        if verified && m.method == "map" && m.args.len() == 1 {
            let hit = self.fn_stack.last().and_then(|f| f.tail_map).filter(|t| t.0 == s && t.1 == e);
            if let (Some((_, _, is_res)), syn::Expr::Closure(c)) = (hit, &m.args[0]) {
                let simple = c.inputs.len() == 1 && matches!(&c.inputs[0], syn::Pat::Ident(pi) if pi.by_ref.is_none() && pi.subpat.is_none())
                    && c.capture.is_none() && matches!(c.output, syn::ReturnType::Default);
                if simple {
                    let (rs, re) = br(m.receiver.span());
                    let (ps, pe) = br(c.inputs[0].span());
                    let (bs, be) = br(c.body.span());
                    let (some, tail) = if is_res { ("Ok", "Err(vx_e) => Err(vx_e)") } else { ("Some", "None => None") };
                    self.replace(s, e, vec![Part::Lit("(match ".into()), Part::Src(rs, re), Part::Lit(format!(" {{ {}(", some)), Part::Src(ps, pe),
                        Part::Lit(format!(") => {}(", some)), Part::Src(bs, be), Part::Lit(format!("), {} }})", tail))]);
                    self.log(s, "R32", "tail `X.map(closure)` of a function returning Result / Option -> match (std's definition)");
                    if let Some(f) = self.fn_stack.last_mut() { f.handled_chain_end = e; }
                    visit::visit_expr_method_call(self, m);
                    return;
                }
            }
        }
        // R30: `queue.extend(opt.take())` (an Option is an iterator of at most one item) -> helper over VecDeque with the spec "push_back if Some"
        if verified && m.method == "extend" && m.args.len() == 1 {
            if let syn::Expr::MethodCall(a) = &m.args[0] {
                if a.method == "take" && a.args.is_empty() {
                    let (rs, re) = br(m.receiver.span());
                    let (as_, ae) = br(m.args[0].span());
                    self.replace(s, e, vec![Part::Lit("vx_extend_opt(&mut ".into()), Part::Src(rs, re), Part::Lit(", ".into()), Part::Src(as_, ae), Part::Lit(")".into())]);
                    if !self.helpers.iter().any(|h| h.contains("fn vx_extend_opt")) {
                        self.helpers.push("// R30: VecDeque::extend with an Option argument (Option::take()): push_back when it is Some\n#[verifier::external_body]\nfn vx_extend_opt<T>(v: &mut std::collections::VecDeque<T>, o: Option<T>)\n    ensures final(v)@ == (match o { Some(x) => old(v)@.push(x), None => old(v)@ })\n{ v.extend(o) }\n".into());
                    }
                    self.log(s, "R30", "VecDeque::extend(Option::take()) -> vx_extend_opt");
                    visit::visit_expr_method_call(self, m);
                    return;
                }
            }
        }
        // R3
        if verified {
            let name = m.method.to_string();
            if name == "copy_from_slice" || name == "swap_with_slice" || name == "fill" {
                if let syn::Expr::Index(ix) = &*m.receiver {
                    let mut idx: &syn::Expr = &ix.index;
                    while let syn::Expr::Paren(p) = idx {
                        idx = &p.expr;
                    }
                    if matches!(idx, syn::Expr::Range(_)) {
                        let (bs, be) = br(ix.expr.span());
                        let base = squash(self.text(bs, be));
                        if self.plan.vec_places.iter().any(|v| *v == base) {
                            self.insert(be, ".as_mut_slice()".into());
                            self.log(s, "R3", "Vec range IndexMut -> as_mut_slice()[range]");
                        }
                    }
                }
            }
        }
        // R19: str pattern methods with a literal pattern -> typed forwarding helpers (Pattern is generic)
        if verified && m.args.len() == 1 {
            let name = m.method.to_string();
            if ["ends_with", "starts_with", "contains", "trim_end_matches", "trim_start_matches", "trim_matches"].contains(&name.as_str()) {
                let arg = &m.args[0];
                let kind = match arg {
                    syn::Expr::Lit(syn::ExprLit { lit: syn::Lit::Char(_), .. }) => Some("char"),
                    syn::Expr::Lit(syn::ExprLit { lit: syn::Lit::Str(_), .. }) => Some("str"),
                    syn::Expr::Array(a) if a.elems.iter().all(|e| matches!(e, syn::Expr::Lit(syn::ExprLit { lit: syn::Lit::Char(_), .. }))) => Some("chars"),
                    _ => None,
                };
                if let Some(k) = kind {
                    let (rs, re) = br(m.receiver.span());
                    let (as_, ae) = br(arg.span());
                    // a receiver that is a str place (`s[a..b]`, rewritten by R22 into `*vx_str_slice(..)`) is auto-referenced by the
                    // method call; the helper takes `&str`, so the reference is written out
                    let mut rcv: &syn::Expr = &m.receiver;
                    while let syn::Expr::Paren(p) = rcv {
                        rcv = &p.expr;
                    }
                    let amp = if let syn::Expr::Index(ix) = rcv { matches!(&*ix.index, syn::Expr::Range(_)) } else { false };
                    let amp = if amp { "&" } else { "" };
                    if k == "chars" {
                        // the array literal is passed element by element (no unsizing coercion in the verifier)
                        let n = if let syn::Expr::Array(a) = arg { a.elems.len() } else { 0 };
                        let inner = self.text(as_, ae).trim().trim_start_matches('[').trim_end_matches(']').to_string();
                        self.replace(
                            s,
                            e,
                            vec![
                                Part::Lit(format!("vx_{}_chars{}({}", name, n, amp)),
                                Part::Src(rs, re),
                                Part::Lit(format!(", {})", inner)),
                            ],
                        );
                    } else {
                    self.replace(
                        s,
                        e,
                        vec![
                            Part::Lit(format!("vx_{}_{}({}", name, k, amp)),
                            Part::Src(rs, re),
                            Part::Lit(", ".into()),
                            Part::Src(as_, ae),
                            Part::Lit(")".into()),
                        ],
                    );
                    }
                    self.log(s, "R19", &format!("str::{}(<{} literal>) -> vx_{}_{}", name, k, name, k));
                }
            }
        }
        // R20: `.parse()` (target f64 everywhere in this crate) -> vx_parse_f64
        let tf_f64 = m.turbofish.as_ref().map(|t| squash(&quote::ToTokens::to_token_stream(t).to_string()) == "::<f64>").unwrap_or(true);
        if verified && m.args.is_empty() && m.method == "parse" && tf_f64 && self.plan.parse_f64 {
            let (rs, re) = br(m.receiver.span());
            self.replace(
                s,
                e,
                vec![Part::Lit("vx_parse_f64((".into()), Part::Src(rs, re), Part::Lit(").vx_str())".into())],
            );
            self.log(s, "R20", "str::parse::<f64>() -> vx_parse_f64");
        }
        // R12: call chains hoisted by text
        if verified {
            let fnk = self.cur_fn();
            let whole = squash(self.text(s, e));
            let mut hit: Option<(usize, ChainHoist, usize)> = None;
            for (i, h) in self.plan.chain_hoists.iter().enumerate() {
                if h.in_fn != fnk {
                    continue;
                }
                let suf = squash(&h.suffix.replace("$recv", ""));
                if whole.ends_with(&suf) {
                    // find receiver: walk down the chain until remaining suffix text matches
                    let mut cur: &syn::Expr = &m.receiver;
                    let mut found = None;
                    let mut this_end = e;
                    let _ = this_end;
                    loop {
                        let (_, ce) = br(cur.span());
                        if squash(self.text(ce, e)) == suf {
                            found = Some(ce);
                            break;
                        }
                        match cur {
                            syn::Expr::MethodCall(mc) => {
                                this_end = ce;
                                cur = &mc.receiver;
                            }
                            _ => break,
                        }
                    }
                    if let Some(ce) = found {
                        hit = Some((i, h.clone(), ce));
                        break;
                    }
                }
            }
            if let Some((i, h, ce)) = hit {
                if !self.used_chain_hoists.contains(&i) || true {
                    self.used_chain_hoists.insert(i);
                    let body = format!("recv{}", self.text(ce, e));
                    self.helpers.push(format!(
                        "#[verifier::external_body]\nfn {}{}{}\n{}\n{{ {} }}\n",
                        h.name, h.generics, h.sig, h.spec, body
                    ));
                    self.replace(
                        s,
                        e,
                        vec![
                            Part::Lit(format!("{}({}", h.name, if h.by_ref { "&" } else { "" })),
                            Part::Src(s, ce),
                            Part::Lit(if h.args.is_empty() { ")".to_string() } else { format!(", {})", h.args) }),
                        ],
                    );
                    self.log(s, "R12", &format!("iterator chain hoisted into {}", h.name));
                    // do not descend into hoisted suffix, but the receiver still needs visiting
                    // (receiver is a prefix of this expression: visit children normally)
                }
            }
        }
        // R7: closure-carrying chains
        if verified && chain_has_closure_arg(m) {
            let outer = {
                let f = self.fn_stack.last().unwrap();
                s >= f.handled_chain_end
            };
            if outer {
                let ord = {
                    let f = self.fn_stack.last_mut().unwrap();
                    f.handled_chain_end = e;
                    let o = f.chain_ord;
                    f.chain_ord += 1;
                    o
                };
                let fnk = self.cur_fn();
                let found = self
                    .plan
                    .hoists
                    .iter()
                    .enumerate()
                    .find(|(_, h)| h.in_fn == fnk && h.nth == ord)
                    .map(|(i, h)| (i, h.clone()));
                if let Some((hi, h)) = found {
                    // find the call named h.split walking down the receiver chain
                    let mut cur: &syn::ExprMethodCall = m;
                    let mut recv_end = None;
                    loop {
                        if cur.method == h.split.as_str() {
                            let (_, re) = br(cur.receiver.span());
                            recv_end = Some(re);
                        }
                        match &*cur.receiver {
                            syn::Expr::MethodCall(mc) => cur = mc,
                            _ => break,
                        }
                    }
                    if let Some(re) = recv_end {
                        self.used_hoists.insert(hi);
                        let body = format!("recv{}", self.text(re, e));
                        let mut h = h;
                        if !h.pin.is_empty() && squash(&h.pin) != squash(self.text(re, e)) {
                            if let Some(a) = h.alts.iter().find(|a| squash(&a.pin) == squash(self.text(re, e))).cloned() {
                                self.log(s, "R7", &format!("the chain hoisted into {} has the alternative text `{}`: its own assumed spec is used", h.name, a.pin));
                                h.pin = a.pin;
                                h.spec = a.spec;
                            }
                        }
                        if !h.pin.is_empty() && squash(&h.pin) != squash(self.text(re, e)) {
                            self.out.errors.push(format!(
                                "lost anchor: the closure chain hoisted into {} (in {}) is no longer the text its assumed spec was written for: `{}`",
                                h.name, fnk, squash(self.text(re, e))
                            ));
                        }
                        self.helpers.push(format!(
                            "// hoisted from {} (R7); body is the verbatim expression\n#[verifier::external_body]\nfn {}{}{}\n{}\n{{ {} }}\n",
                            fnk, h.name, h.generics, h.sig, h.spec, body
                        ));
                        self.replace(
                            s,
                            e,
                            vec![
                                Part::Lit(format!("{}({}", h.name, if h.by_ref { "&" } else { "" })),
                                Part::Src(s, re),
                                Part::Lit(")".into()),
                            ],
                        );
                        self.log(s, "R7", &format!("closure chain hoisted into {}", h.name));
                    } else {
                        self.out.errors.push(format!(
                            "lost anchor: hoist {} in {}: no call `.{}(` in chain #{}",
                            h.name, fnk, h.split, ord
                        ));
                    }
                } else {
                    self.out.warnings.push(format!(
                        "closure-carrying chain #{} in {} at line {} has no hoist rule",
                        ord,
                        fnk,
                        self.line_of(s)
                    ));
                }
            }
        }
        visit::visit_expr_method_call(self, m);
    }

    fn visit_type_path(&mut self, t: &'ast syn::TypePath) {
        if self.copy_mode && t.qself.is_none() && t.path.segments.len() == 2 && t.path.segments[0].ident == "Self" {
            let name = t.path.segments[1].ident.to_string();
            if let Some(rep) = self.copy_assoc.get(&name).cloned() {
                let (s, e) = br(t.span());
                self.replace(s, e, vec![Part::Lit(rep)]);
                return;
            }
        }
        visit::visit_type_path(self, t);
    }

    fn visit_expr_path(&mut self, p: &'ast syn::ExprPath) {
        if let Some((rs, re, vars)) = &self.deref_region {
            let (s, e) = br(p.span());
            if s >= *rs && e <= *re {
                if let Some(id) = p.path.get_ident() {
                    if vars.iter().any(|v| id == v.as_str()) {
                        let name = id.to_string();
                        self.replace(s, e, vec![Part::Lit(format!("(*{})", name))]);
                        return;
                    }
                }
            }
        }
        if p.path.is_ident("self") && self.fn_stack.last().map(|f| f.rename_self).unwrap_or(false) {
            let (s, e) = br(p.span());
            self.replace(s, e, vec![Part::Lit("self_".into())]);
        }
        visit::visit_expr_path(self, p);
    }

    fn visit_expr(&mut self, ex: &'ast syn::Expr) {
        if self.in_verified_fn() && !self.plan.outlines.is_empty() {
            if let syn::Expr::Match(m) = ex {
                let fnk = self.cur_fn();
                let hit = self
                    .plan
                    .outlines
                    .iter()
                    .find(|o| o.in_fn == fnk && m.arms.len() >= o.min_arms && !self.used_outlines.contains(&o.name))
                    .cloned();
                if let Some(o) = hit {
                    let (s, e) = br(ex.span());
                    self.used_outlines.insert(o.name.clone());
                    // R21b: locals of the enclosing function that the match reads and that are not passed as arguments are
                    // bound again inside the outlined method, provided their initializer is a pure expression
                    let mut rebinds: Vec<(String, usize, usize)> = Vec::new();
                    {
                        let mut used: Vec<String> = Vec::new();
                        idents_of(quote::ToTokens::to_token_stream(m), &mut used);
                        let mut argn: Vec<String> = Vec::new();
                        for a in o.args.split(|c: char| !(c.is_alphanumeric() || c == '_')) {
                            if !a.is_empty() {
                                argn.push(a.to_string());
                            }
                        }
                        let lets: Vec<LetInfo> = self.fn_stack.last().map(|f| f.lets.clone()).unwrap_or_default();
                        let before: Vec<&LetInfo> = lets.iter().filter(|l| l.stmt_end <= s).collect();
                        let mut need: Vec<String> = Vec::new();
                        let mut work: Vec<String> = used;
                        while let Some(id) = work.pop() {
                            if argn.contains(&id) || need.contains(&id) {
                                continue;
                            }
                            if let Some(l) = before.iter().rev().find(|l| l.name == id) {
                                need.push(id.clone());
                                for j in &l.idents {
                                    work.push(j.clone());
                                }
                            }
                        }
                        for l in &before {
                            if need.contains(&l.name) {
                                if !l.pure_init || l.mutable {
                                    let ln = self.line_of(s);
                                    self.out.errors.push(format!(
                                        "unsupported construct: the match at line {} (outlined into {}) reads the local `{}`, which is mutable or whose initializer is not a pure expression",
                                        ln, o.name, l.name
                                    ));
                                } else {
                                    rebinds.push((l.name.clone(), l.init.0, l.init.1));
                                    self.log(s, "R21b", &format!("local `{}` (pure initializer) bound again inside the outlined method {}", l.name, o.name));
                                }
                            }
                        }
                    }
                    let idx = self.edits.len();
                    self.replace(s, e, vec![Part::Lit(format!("self.{}({})", o.name, o.args))]);
                    self.log(s, "R21", &format!("match ({} arms) outlined into method {}", m.arms.len(), o.name));
                    let old = self.deref_region.take();
                    if !o.mut_vars.is_empty() {
                        self.deref_region = Some((s, e, o.mut_vars.clone()));
                    }
                    let old_l = self.outline_lits.replace(Vec::new());
                    visit::visit_expr(self, ex);
                    let lits = std::mem::replace(&mut self.outline_lits, old_l).unwrap_or_default();
                    self.deref_region = old;
                    self.pending_outlines.push((idx, o.clone(), fnk.clone(), lits, rebinds));
                    return;
                }
            }
        }
        if self.in_verified_fn() && !self.plan.expr_hoists.is_empty() {
            let (s, e) = br(ex.span());
            let fnk = self.cur_fn();
            let txt = squash(self.text(s, e));
            let hit = self.plan.expr_hoists.iter().find(|h| h.in_fn == fnk && squash(&h.text) == txt).cloned();
            if let Some(h) = hit {
                if h.method_of.is_empty() {
                    self.helpers.push(format!(
                        "// hoisted from {} (R12); body is the verbatim expression\n#[verifier::external_body]\nfn {}{}{}\n{}\n{{ {} }}\n",
                        fnk, h.name, h.generics, h.sig, h.spec, self.text(s, e)
                    ));
                    self.replace(s, e, vec![Part::Lit(format!("{}({})", h.name, h.args))]);
                } else {
                    self.helpers.push(format!(
                        "// hoisted from {} (R12); body is the verbatim expression\nimpl {} {{\n#[verifier::external_body]\nfn {}{}{}\n{}\n{{ {} }}\n}}\n",
                        fnk, h.method_of, h.name, h.generics, h.sig, h.spec, self.text(s, e)
                    ));
                    self.replace(s, e, vec![Part::Lit(format!("self.{}({})", h.name, h.args))]);
                }
                self.log(s, "R12", &format!("expression hoisted into {}", h.name));
                self.used_expr_hoists.insert(h.name.clone());
                return;
            }
        }
        visit::visit_expr(self, ex);
    }

    fn visit_expr_macro(&mut self, m: &'ast syn::ExprMacro) {
        self.handle_macro(&m.mac, br(m.span()), false);
        visit::visit_expr_macro(self, m);
    }
    fn visit_stmt_macro(&mut self, m: &'ast syn::StmtMacro) {
        self.handle_macro(&m.mac, br(m.span()), true);
        visit::visit_stmt_macro(self, m);
    }
}

impl<'p> Ctx<'p> {
    fn static_ref(&mut self, ty: &syn::Type) {
        if let syn::Type::Reference(r) = ty {
            if r.lifetime.is_none() {
                let (s, _) = br(r.and_token.span());
                self.insert(s + 1, "'static ".into());
                self.log(s, "R27", "const/static of reference type: elided lifetime written as 'static");
            }
        }
    }
    fn handle_macro(&mut self, mac: &syn::Macro, (s, e): (usize, usize), stmt: bool) {
        if !self.in_verified_fn() {
            return;
        }
        let name = mac.path.segments.last().map(|x| x.ident.to_string()).unwrap_or_default();
        if let Some(rep) = self.plan.macro_stubs.get(&name) {
            self.replace(s, e, vec![Part::Lit(rep.clone())]);
            self.log(s, "R8", &format!("{}! replaced by plan stub", name));
            return;
        }
        match name.as_str() {
            "debug_assert" => {
                let inner = mac.tokens.to_string();
                // keep only the condition (first comma-separated argument)
                let cond = match syn::parse2::<syn::Expr>(mac.tokens.clone()) {
                    Ok(_) => inner,
                    Err(_) => inner.split(',').next().unwrap_or("true").to_string(),
                };
                self.replace(
                    s,
                    e,
                    vec![Part::Lit(format!("proof {{ assert({}); }}{}", cond, if stmt { "" } else { "" }))],
                );
                self.log(s, "R13", "debug_assert!(c) -> proof { assert(c); }");
            }
            "matches" => {
                // matches!(e, pat) -> match e { pat => true, _ => false }
                let toks = mac.tokens.to_string();
                if let Some(i) = top_level_comma(&toks) {
                    let (a, b) = toks.split_at(i);
                    let b = &b[1..];
                    // all alternatives are string literals: comparison chain (str literal arms cannot be entered by Verus)
                    let alts: Vec<&str> = b.split('|').map(|x| x.trim()).collect();
                    if !alts.is_empty() && alts.iter().all(|x| x.starts_with('"') && x.ends_with('"') && x.len() >= 2) {
                        self.counter += 1;
                        let v = format!("vx_t{}", self.counter);
                        let chain: Vec<String> = alts.iter().map(|x| format!("vx_eq_str({v}, {x})")).collect();
                        self.replace(
                            s,
                            e,
                            vec![Part::Lit(format!("{{ let {v} = {}; {} }}{}", a.trim(), chain.join(" || "), if stmt { ";" } else { "" }))],
                        );
                        self.log(s, "R14", "matches!(e, \"a\" | \"b\") -> e == \"a\" || e == \"b\"");
                        return;
                    }
                    self.replace(
                        s,
                        e,
                        vec![Part::Lit(format!(
                            "(match {} {{ {} => true, _ => false }}){}",
                            a.trim(),
                            b.trim(),
                            if stmt { ";" } else { "" }
                        ))],
                    );
                    self.log(s, "R14", "matches!(e, p) -> match e { p => true, _ => false }");
                }
            }
            // R25: writing to the process's standard streams. The helper's precondition is `false`: a reachable call is a
            // failed obligation of the "no output on standard streams" property (dbg! is the identity on its argument)
            "dbg" | "println" | "eprintln" | "print" | "eprint" => {
                let inner = mac.tokens.to_string();
                let rep = if name == "dbg" && !stmt && !inner.trim().is_empty() {
                    format!("{{ vx_std_stream_output(); {} }}", inner)
                } else {
                    format!("vx_std_stream_output(){}", if stmt { ";" } else { "" })
                };
                self.replace(s, e, vec![Part::Lit(rep)]);
                self.log(s, "R25", &format!("{}! -> vx_std_stream_output() (precondition: never reached)", name));
            }
            "format" => {
                if let Some(t) = format_to_cat(mac) {
                    self.replace(s, e, vec![Part::Lit(t)]);
                    self.log(s, "R8", "format!(..) -> vx_cat(..)");
                } else {
                    self.out.errors.push(format!(
                        "unsupported construct: format! at line {}",
                        self.line_of(s)
                    ));
                }
            }
            _ => {}
        }
    }
}

/// value of a simple constant integer expression (literals, parentheses, << >> | & ^ + - *, Self::NAME.bits())
fn const_eval(e: &syn::Expr, known: &[(String, String)]) -> Option<u64> {
    match e {
        syn::Expr::Lit(syn::ExprLit { lit: syn::Lit::Int(i), .. }) => i.base10_parse::<u64>().ok(),
        syn::Expr::Paren(p) => const_eval(&p.expr, known),
        syn::Expr::Binary(b) => {
            let l = const_eval(&b.left, known)?;
            let r = const_eval(&b.right, known)?;
            match b.op {
                syn::BinOp::Shl(_) => l.checked_shl(r as u32),
                syn::BinOp::Shr(_) => l.checked_shr(r as u32),
                syn::BinOp::BitOr(_) => Some(l | r),
                syn::BinOp::BitAnd(_) => Some(l & r),
                syn::BinOp::BitXor(_) => Some(l ^ r),
                syn::BinOp::Add(_) => l.checked_add(r),
                syn::BinOp::Sub(_) => l.checked_sub(r),
                syn::BinOp::Mul(_) => l.checked_mul(r),
                _ => None,
            }
        }
        syn::Expr::Field(f) => {
            // Self::NAME.bits
            if let syn::Expr::Path(p) = &*f.base {
                let name = p.path.segments.last()?.ident.to_string();
                let (_, v) = known.iter().find(|(n, _)| *n == name)?;
                let digits: String = v.trim_start_matches('(').chars().take_while(|c| c.is_ascii_digit()).collect();
                return digits.parse::<u64>().ok();
            }
            None
        }
        _ => None,
    }
}

fn top_level_comma(s: &str) -> Option<usize> {
    let mut depth = 0i32;
    for (i, c) in s.char_indices() {
        match c {
            '(' | '[' | '{' => depth += 1,
            ')' | ']' | '}' => depth -= 1,
            ',' if depth == 0 => return Some(i),
            _ => {}
        }
    }
    None
}

/// format!("{}{lit}{name}", a, b) -> nested vx_cat2 over pieces; only `{}` and `{ident}` holes.
fn format_to_cat(mac: &syn::Macro) -> Option<String> {
    let args = mac
        .parse_body_with(syn::punctuated::Punctuated::<syn::Expr, syn::Token![,]>::parse_terminated)
        .ok()?;
    let mut it = args.iter();
    let fmt = match it.next()? {
        syn::Expr::Lit(syn::ExprLit { lit: syn::Lit::Str(s), .. }) => s.value(),
        _ => return None,
    };
    let rest: Vec<String> = it.map(|e| quote::quote!(#e).to_string()).collect();
    let mut pieces: Vec<String> = Vec::new();
    let mut lit = String::new();
    let mut chars = fmt.chars().peekable();
    let mut pos = 0usize;
    while let Some(c) = chars.next() {
        if c == '{' {
            if chars.peek() == Some(&'{') {
                chars.next();
                lit.push('{');
                continue;
            }
            let mut name = String::new();
            loop {
                match chars.next()? {
                    '}' => break,
                    x => name.push(x),
                }
            }
            if !lit.is_empty() {
                pieces.push(format!("{:?}", lit));
                lit.clear();
            }
            if name.is_empty() {
                pieces.push(format!("({}).vx_str()", rest.get(pos)?));
                pos += 1;
            } else if name.chars().all(|c| c.is_alphanumeric() || c == '_') {
                pieces.push(format!("({}).vx_str()", name));
            } else {
                return None;
            }
        } else if c == '}' {
            if chars.peek() == Some(&'}') {
                chars.next();
            }
            lit.push('}');
        } else {
            lit.push(c);
        }
    }
    if !lit.is_empty() {
        pieces.push(format!("{:?}", lit));
    }
    if pieces.is_empty() {
        return Some("String::new()".into());
    }
    if pieces.len() == 1 {
        return Some(format!("vx_cat2({}, vx_empty())", pieces[0]));
    }
    let mut acc = format!("vx_cat2({}, {})", pieces[0], pieces[1]);
    for p in &pieces[2..] {
        acc = format!("vx_cat2(({}).vx_str(), {})", acc, p);
    }
    Some(acc)
}

/// R28: a `macro_rules!` with ONE rule whose matcher is a comma-separated list of identifiers (`$($v:ident),+` or `,*`) is expanded
/// textually at each of its invocations `name!(A, B, ..)`: the rule body is copied from the source, every `$( .. )*` / `$( .. )+`
/// repetition is written once per argument with `$v` replaced by it. The definition itself is blanked (line count kept). The expanded
/// text is ordinary Rust, so every other rule applies to it as to hand-written code. Returns (text, original line of each line, log).
/// Anything that does not have exactly this shape is left alone.
fn expand_list_macros(src: String, file: &str) -> (String, Vec<usize>, Vec<String>) {
    use proc_macro2::{Delimiter, TokenTree as TT};
    let Ok(parsed) = syn::parse_file(&src) else { return (src, Vec::new(), Vec::new()) };
    struct Def { name: String, var: String, body: (usize, usize), reps: Vec<(usize, usize, usize, usize, Vec<(usize, usize)>)>, outer_vars: usize, span: (usize, usize) }
    let mut defs: Vec<Def> = Vec::new();
    for it in &parsed.items {
        let syn::Item::Macro(m) = it else { continue };
        if !m.mac.path.is_ident("macro_rules") { continue }
        let Some(name) = &m.ident else { continue };
        let toks: Vec<TT> = m.mac.tokens.clone().into_iter().collect();
        // ( matcher ) => { body } [;]
        if !(toks.len() == 4 || toks.len() == 5) { continue }
        let (TT::Group(mg), TT::Punct(p1), TT::Punct(p2), TT::Group(bg)) = (&toks[0], &toks[1], &toks[2], &toks[3]) else { continue };
        if p1.as_char() != '=' || p2.as_char() != '>' || bg.delimiter() != Delimiter::Brace { continue }
        if toks.len() == 5 { if let TT::Punct(p) = &toks[4] { if p.as_char() != ';' { continue } } else { continue } }
        let mt: Vec<TT> = mg.stream().into_iter().collect();
        // $ ( $ v : ident ) , +|*      optionally followed by `$(,)?` (a trailing comma in the invocation)
        let mt: Vec<TT> = if mt.len() == 7 {
            let tail_ok = matches!((&mt[4], &mt[5], &mt[6]), (TT::Punct(a), TT::Group(g), TT::Punct(q))
                if a.as_char() == '$' && q.as_char() == '?' && g.delimiter() == Delimiter::Parenthesis && g.stream().to_string().trim() == ",");
            if !tail_ok { continue }
            mt[..4].to_vec()
        } else { mt };
        if mt.len() != 4 { continue }
        let (TT::Punct(d), TT::Group(ig), TT::Punct(sep), TT::Punct(rep)) = (&mt[0], &mt[1], &mt[2], &mt[3]) else { continue };
        if d.as_char() != '$' || sep.as_char() != ',' || !(rep.as_char() == '+' || rep.as_char() == '*') || ig.delimiter() != Delimiter::Parenthesis { continue }
        let it_: Vec<TT> = ig.stream().into_iter().collect();
        if it_.len() != 4 { continue }
        let (TT::Punct(d2), TT::Ident(v), TT::Punct(c), TT::Ident(k)) = (&it_[0], &it_[1], &it_[2], &it_[3]) else { continue };
        if d2.as_char() != '$' || c.as_char() != ':' || k != "ident" { continue }
        let var = v.to_string();
        // body: top-level repetitions `$( .. ) [sep] *|+`, uses of `$v` inside them; nested repetitions or `$v` outside one: not this shape
        let body = (br(bg.span_open()).1, br(bg.span_close()).0);
        let mut reps = Vec::new();
        let mut ok = true;
        let mut outer_vars = 0usize;
        fn scan(ts: proc_macro2::TokenStream, var: &str, top: bool, reps: &mut Vec<(usize, usize, usize, usize, Vec<(usize, usize)>)>, ok: &mut bool, outer_vars: &mut usize, inside: &mut Option<Vec<(usize, usize)>>) {
            let v: Vec<TT> = ts.into_iter().collect();
            let mut i = 0;
            while i < v.len() {
                match &v[i] {
                    TT::Punct(p) if p.as_char() == '$' => {
                        match v.get(i + 1) {
                            Some(TT::Group(g)) if g.delimiter() == Delimiter::Parenthesis => {
                                if inside.is_some() { *ok = false; return }
                                // optional separator, then * or +
                                let mut j = i + 2;
                                let mut endp = None;
                                if let Some(TT::Punct(q)) = v.get(j) {
                                    if q.as_char() == '*' || q.as_char() == '+' { endp = Some(br(q.span()).1) }
                                    else if let Some(TT::Punct(q2)) = v.get(j + 1) { if q2.as_char() == '*' || q2.as_char() == '+' { *ok = false; return } let _ = q2; }
                                }
                                let Some(endp) = endp else { *ok = false; return };
                                j += 1;
                                let mut uses = Some(Vec::new());
                                scan(g.stream(), var, false, reps, ok, outer_vars, &mut uses);
                                if !*ok { return }
                                reps.push((br(p.span()).0, endp, br(g.span_open()).1, br(g.span_close()).0, uses.unwrap()));
                                i = j;
                                continue;
                            }
                            Some(TT::Ident(id)) => {
                                if id == var {
                                    match inside { Some(u) => u.push((br(p.span()).0, br(id.span()).1)), None => { *outer_vars += 1; } }
                                } else { *ok = false; return }
                                i += 2;
                                continue;
                            }
                            _ => { *ok = false; return }
                        }
                    }
                    TT::Group(g) => { scan(g.stream(), var, top, reps, ok, outer_vars, inside); if !*ok { return } }
                    _ => {}
                }
                i += 1;
            }
        }
        let mut none = None;
        scan(bg.stream(), &var, true, &mut reps, &mut ok, &mut outer_vars, &mut none);
        if !ok || outer_vars > 0 { continue }
        reps.sort();
        defs.push(Def { name: name.to_string(), var, body, reps, outer_vars, span: br(it.span()) });
    }
    if defs.is_empty() { return (src, Vec::new(), Vec::new()) }
    // invocations: `name!(A, B, ..)` as an item or as an impl item
    let mut calls: Vec<(usize, usize, usize, Vec<String>)> = Vec::new(); // (start, end, def index, args)
    let mut consider = |mac: &syn::Macro, span: (usize, usize)| {
        let Some(id) = mac.path.get_ident() else { return };
        let Some(di) = defs.iter().position(|d| *id == d.name) else { return };
        let mut args = Vec::new();
        let mut expect_ident = true;
        for t in mac.tokens.clone() {
            match t {
                TT::Ident(i) if expect_ident => { args.push(i.to_string()); expect_ident = false; }
                TT::Punct(p) if !expect_ident && p.as_char() == ',' => expect_ident = true,
                _ => return,
            }
        }
        if !args.is_empty() { calls.push((span.0, span.1, di, args)); }
    };
    for it in &parsed.items {
        match it {
            syn::Item::Macro(m) if m.ident.is_none() => consider(&m.mac, br(it.span())),
            syn::Item::Impl(im) => for ii in &im.items { if let syn::ImplItem::Macro(m) = ii { consider(&m.mac, br(ii.span())) } },
            _ => {}
        }
    }
    if calls.is_empty() { return (src, Vec::new(), Vec::new()) }
    let orig_line = |off: usize| src[..off].bytes().filter(|b| *b == b'\n').count() + 1;
    let mut out = String::new();
    let mut map: Vec<usize> = vec![1];
    fn push(out: &mut String, map: &mut Vec<usize>, text: &str, mut line: usize) {
        for ch in text.chars() {
            out.push(ch);
            if ch == '\n' { line += 1; map.push(line); }
        }
    }
    let mut log = Vec::new();
    // edits in source order: blank the definitions that are invoked, expand the invocations
    let mut edits: Vec<(usize, usize, Option<usize>)> = Vec::new();
    for (k, d) in defs.iter().enumerate() { if calls.iter().any(|c| c.2 == k) { edits.push((d.span.0, d.span.1, None)); } }
    for (k, c) in calls.iter().enumerate() { edits.push((c.0, c.1, Some(k))); }
    edits.sort();
    let mut pos = 0usize;
    for (a, b, what) in edits {
        if a < pos { continue }
        push(&mut out, &mut map, &src[pos..a], orig_line(pos));
        match what {
            None => {
                let nl = src[a..b].bytes().filter(|x| *x == b'\n').count();
                push(&mut out, &mut map, &format!("// (macro_rules definition expanded at its invocations, rule R28){}", "\n".repeat(nl)), orig_line(a));
            }
            Some(k) => {
                let (_, _, di, args) = &calls[k];
                let d = &defs[*di];
                push(&mut out, &mut map, &format!("// {}!({}) expanded from the macro_rules body (rule R28)", d.name, args.join(", ")), orig_line(a));
                let mut p = d.body.0;
                for (rs, re, is, ie, uses) in &d.reps {
                    push(&mut out, &mut map, &src[p..*rs], orig_line(p));
                    for arg in args {
                        let mut q = *is;
                        for (us, ue) in uses {
                            push(&mut out, &mut map, &src[q..*us], orig_line(q));
                            push(&mut out, &mut map, arg, orig_line(*us));
                            q = *ue;
                        }
                        push(&mut out, &mut map, &src[q..*ie], orig_line(q));
                    }
                    p = *re;
                }
                push(&mut out, &mut map, &src[p..d.body.1], orig_line(p));
                log.push(format!("{}:{} R28 {}!({}) expanded textually from its macro_rules definition at line {} ({} repetitions x {} arguments)",
                    file, orig_line(a), d.name, args.join(", "), orig_line(d.span.0), d.reps.len(), args.len()));
                let _ = (&d.var, d.outer_vars);
            }
        }
        pos = b;
    }
    push(&mut out, &mut map, &src[pos..], orig_line(pos));
    if syn::parse_file(&out).is_err() {
        // the expansion is not Rust (a shape this rule does not understand): leave the file as it is
        return (src, Vec::new(), Vec::new());
    }
    (out, map, log)
}

fn item_key(i: &syn::Item) -> Option<(String, Vec<syn::Attribute>)> {
    Some(match i {
        syn::Item::Struct(s) => (format!("struct {}", s.ident), s.attrs.clone()),
        syn::Item::Enum(s) => (format!("enum {}", s.ident), s.attrs.clone()),
        syn::Item::Trait(s) => (format!("trait {}", s.ident), s.attrs.clone()),
        syn::Item::Fn(s) => (format!("fn {}", s.sig.ident), s.attrs.clone()),
        syn::Item::Static(s) => (format!("static {}", s.ident), s.attrs.clone()),
        syn::Item::Const(s) => (format!("const {}", s.ident), s.attrs.clone()),
        syn::Item::Type(s) => (format!("type {}", s.ident), s.attrs.clone()),
        syn::Item::Impl(s) => {
            let ty = type_key(&s.self_ty);
            let k = match &s.trait_ {
                Some((_, p, _)) => format!(
                    "impl {} for {}",
                    p.segments.last().map(|x| x.ident.to_string()).unwrap_or_default(),
                    ty
                ),
                None => format!("impl {}", ty),
            };
            (k, s.attrs.clone())
        }
        syn::Item::Macro(m) => {
            let name = m.mac.path.segments.last().map(|x| x.ident.to_string()).unwrap_or_default();
            let k = match &m.ident {
                Some(id) => format!("macro {}", id),
                None => format!("{}!", name),
            };
            (k, m.attrs.clone())
        }
        _ => return None,
    })
}

fn compute_parents(edits: &[Edit]) -> Vec<Option<usize>> {
    let n = edits.len();
    let mut parent = vec![None; n];
    for i in 0..n {
        let b = &edits[i];
        let mut best: Option<usize> = None;
        for j in 0..n {
            if i == j {
                continue;
            }
            let a = &edits[j];
            if a.start == a.end {
                continue;
            }
            let inside = if b.start == b.end {
                a.start < b.start && b.start < a.end
            } else if (a.start, a.end) == (b.start, b.end) {
                j < i
            } else {
                a.start <= b.start && b.end <= a.end
            };
            if !inside {
                continue;
            }
            best = match best {
                None => Some(j),
                Some(k) => {
                    let c = &edits[k];
                    // choose the smaller (innermost) container; ties -> later created
                    let smaller = (a.end - a.start) < (c.end - c.start)
                        || ((a.end - a.start) == (c.end - c.start) && j > k);
                    if smaller {
                        Some(j)
                    } else {
                        Some(k)
                    }
                }
            };
        }
        parent[i] = best;
    }
    parent
}

fn render(
    src: &str,
    edits: &[Edit],
    parents: &[Option<usize>],
    s: usize,
    e: usize,
    parent: Option<usize>,
) -> String {
    let mut inside: Vec<usize> = (0..edits.len())
        .filter(|&i| parents[i] == parent)
        .filter(|&i| {
            let ed = &edits[i];
            if ed.start == ed.end {
                ed.start >= s && ed.start < e
            } else {
                ed.start >= s && ed.end <= e
            }
        })
        .collect();
    inside.sort_by_key(|&i| (edits[i].start, edits[i].end != edits[i].start, i));
    let mut out = String::new();
    let mut pos = s;
    for i in inside {
        let ed = &edits[i];
        if ed.start < pos {
            continue;
        }
        out.push_str(&src[pos..ed.start]);
        for p in &ed.parts {
            match p {
                Part::Lit(t) => out.push_str(t),
                Part::Src(a, b) => out.push_str(&render(src, edits, parents, *a, *b, Some(i))),
            }
        }
        pos = ed.end;
    }
    out.push_str(&src[pos..e]);
    out
}

fn main() {
    let args: Vec<String> = std::env::args().collect();
    if args.len() != 2 {
        eprintln!("usage: vx <plan.json>");
        std::process::exit(2);
    }
    let plan: Plan = serde_json::from_str(&std::fs::read_to_string(&args[1]).expect("plan")).expect("plan json");
    let src = std::fs::read_to_string(&plan.file).expect("source file");
    let (src, line_map, pre_log) = expand_list_macros(src, &short(&plan.file));
    let file = match syn::parse_file(&src) {
        Ok(f) => f,
        Err(e) => {
            let mut out = Output::default();
            out.errors.push(format!("parse error in {}: {}", plan.file, e));
            println!("{}", serde_json::to_string(&out).unwrap());
            return;
        }
    };
    let mut cx = Ctx {
        src: &src,
        line_map,
        plan: &plan,
        edits: Vec::new(),
        out: Output::default(),
        fn_stack: Vec::new(),
        counter: 0,
        helpers: Vec::new(),
        used_contracts: HashSet::new(),
        used_hoists: HashSet::new(),
        used_chain_hoists: HashSet::new(),
        used_expr_hoists: HashSet::new(),
        impl_prefix: None,
        pending_outlines: Vec::new(),
        outline_lits: None,
        deref_region: None,
        used_outlines: HashSet::new(),
        force_plain: false,
        copy_mode: false,
        copy_names: Vec::new(),
        copy_assoc: HashMap::new(),
    };
    cx.out.log.extend(pre_log);
    let mut rendered = String::new();
    for item in &file.items {
        let Some((key, attrs)) = item_key(item) else { continue };
        if has_cfg_test(&attrs) {
            continue;
        }
        if !plan.keep.is_empty() && !plan.keep.iter().any(|k| *k == key) {
            // a keep list selects types, impls and traits; a free function or constant the list does not know (a helper added later) is
            // kept as well, so that the kept code that calls it still resolves - it is verified like any other function without contract
            if !(plan.keep_helpers && matches!(item, syn::Item::Fn(_) | syn::Item::Const(_))) {
                continue;
            }
            cx.out.log.push(format!("{}: item `{}` is not on the unit's keep list: kept because it is a free function / constant", short(&plan.file), key));
        }
        if plan.drop.iter().any(|k| *k == key) {
            continue;
        }
        // R31: an empty impl of a std marker trait (`impl FusedIterator for X {}`) has no code to verify and no verified code relies on it
        if let syn::Item::Impl(im) = item {
            if im.items.is_empty() {
                if let Some((_, tp, _)) = &im.trait_ {
                    let last = tp.segments.last().map(|s| s.ident.to_string()).unwrap_or_default();
                    if ["FusedIterator", "Send", "Sync", "Eq", "Unpin", "UnwindSafe", "RefUnwindSafe"].contains(&last.as_str()) {
                        cx.out.log.push(format!("{}:{} R31 empty marker-trait impl `{}` dropped", short(&plan.file), cx.line_of(br(item.span()).0), key));
                        continue;
                    }
                }
            }
        }
        let (s, e) = br(item.span());
        cx.out.items.push(key.clone());
        if let Some(stub) = plan.item_stubs.get(&key) {
            cx.out.log.push(format!("{}:{} R9 item `{}` replaced by generated stub", short(&plan.file), cx.line_of(s), key));
            rendered.push_str(&format!("// @item {} ({}:{})\n{}\n\n", key, short(&plan.file), cx.line_of(s), stub));
            continue;
        }
        if let (Some(prefix), syn::Item::Static(st)) = (plan.phf_stub.get(&key), item) {
            // R9: collect the string literals of the phf_set! invocation
            fn lits(ts: proc_macro2::TokenStream, out: &mut Vec<String>) {
                for t in ts {
                    match t {
                        proc_macro2::TokenTree::Group(g) => lits(g.stream(), out),
                        proc_macro2::TokenTree::Literal(l) => {
                            if let Ok(syn::Lit::Str(s)) = syn::parse_str::<syn::Lit>(&l.to_string()) {
                                out.push(s.value());
                            }
                        }
                        _ => {}
                    }
                }
            }
            let mut words = Vec::new();
            if let syn::Expr::Macro(m) = &*st.expr {
                lits(m.mac.tokens.clone(), &mut words);
            }
            let mut t = format!("// R9: stub generated from the {} words of the phf_set! invocation at {}:{}\n", words.len(), short(&plan.file), cx.line_of(s));
            t.push_str(&format!("pub open spec fn {}_insignificant(w: Seq<char>) -> bool {{\n    false", prefix));
            for w in &words {
                t.push_str(&format!("\n    || w == {:?}@", w));
            }
            t.push_str("\n}\n");
            t.push_str(&format!("pub struct VxWordSet_{p};\nimpl VxWordSet_{p} {{\n    #[verifier::external_body]\n    pub fn contains(&self, w: &str) -> (r: bool) ensures r == {p}_insignificant(w@) {{ unimplemented!() }}\n}}\npub const {name}: VxWordSet_{p} = VxWordSet_{p};\n", p = prefix, name = st.ident));
            cx.out.log.push(format!("{}:{} R9 phf_set! `{}` ({} words) replaced by generated word-set stub", short(&plan.file), cx.line_of(s), st.ident, words.len()));
            rendered.push_str(&format!("// @item {} ({}:{})\n{}\n", key, short(&plan.file), cx.line_of(s), t));
            continue;
        }
        if let (true, syn::Item::Macro(mm)) = (plan.bitflags_stub && key == "bitflags!", item) {
            // R9: `struct NAME: u64 { const A = 1; ... }`
            let toks: Vec<proc_macro2::TokenTree> = mm.mac.tokens.clone().into_iter().collect();
            let mut name = String::new();
            let mut consts: Vec<(String, String)> = Vec::new();
            let mut i = 0;
            while i < toks.len() {
                if let proc_macro2::TokenTree::Ident(id) = &toks[i] {
                    if id == "struct" {
                        if let Some(proc_macro2::TokenTree::Ident(n)) = toks.get(i + 1) {
                            name = n.to_string();
                        }
                    }
                }
                if let proc_macro2::TokenTree::Group(g) = &toks[i] {
                    if g.delimiter() == proc_macro2::Delimiter::Brace {
                        let inner: Vec<proc_macro2::TokenTree> = g.stream().into_iter().collect();
                        let mut j = 0;
                        while j < inner.len() {
                            if let proc_macro2::TokenTree::Ident(id) = &inner[j] {
                                if id == "const" {
                                    if let Some(proc_macro2::TokenTree::Ident(cn)) = inner.get(j + 1) {
                                        // value expression: tokens after `=` up to `;`
                                        let mut k = j + 3;
                                        let mut v = String::new();
                                        let mut first: Option<usize> = None;
                                        let mut last: usize = 0;
                                        while k < inner.len() {
                                            if let proc_macro2::TokenTree::Punct(p) = &inner[k] {
                                                if p.as_char() == ';' {
                                                    break;
                                                }
                                            }
                                            let r = inner[k].span().byte_range();
                                            if first.is_none() {
                                                first = Some(r.start);
                                            }
                                            last = r.end;
                                            k += 1;
                                        }
                                        if let Some(f0) = first {
                                            v.push_str(&src[f0..last]);
                                        }
                                        // constant folding of simple integer expressions (the solver does not evaluate shifts)
                                        if let Ok(ex) = syn::parse_str::<syn::Expr>(&v) {
                                            if let Some(val) = const_eval(&ex, &consts) {
                                                v = format!("{} /* {} */", val, v);
                                            }
                                        }
                                        consts.push((cn.to_string(), format!("({})", v.trim())));
                                    }
                                }
                            }
                            j += 1;
                        }
                    }
                }
                i += 1;
            }
            if name.is_empty() || consts.is_empty() {
                cx.out.errors.push(format!("unsupported construct: bitflags! at line {} not understood", cx.line_of(s)));
                continue;
            }
            let all: Vec<String> = consts.iter().map(|(c, _)| format!("{}::{}.bits", name, c)).collect();
            let mask = all.join(" | ");
            let mut t = format!("// R9: stub generated from the bitflags! invocation at {}:{} (constants read from its tokens)\n#[derive(Clone, Copy)]\npub struct {name} {{ pub bits: u64 }}\nimpl {name} {{\n", short(&plan.file), cx.line_of(s));
            for (c, v) in &consts {
                t.push_str(&format!("    pub const {c}: {name} = {name} {{ bits: {v} }};\n"));
            }
            t.push_str(&format!("    pub open spec fn all_bits() -> u64 {{ {mask} }}\n"));
            t.push_str(&format!("    pub fn from_bits_truncate(b: u64) -> (r: {name}) ensures r.bits == b & {name}::all_bits() {{ {name} {{ bits: b & ({mask}) }} }}\n"));
            t.push_str(&format!("    pub fn empty() -> (r: {name}) ensures r.bits == 0 {{ {name} {{ bits: 0 }} }}\n"));
            t.push_str(&format!("    pub fn contains(&self, o: {name}) -> (r: bool) ensures r == (self.bits & o.bits == o.bits) {{ self.bits & o.bits == o.bits }}\n"));
            t.push_str("    pub fn bits(&self) -> (r: u64) ensures r == self.bits { self.bits }\n}\n");
            cx.out.log.push(format!("{}:{} R9 bitflags! `{}` ({} constants) replaced by generated struct", short(&plan.file), cx.line_of(s), name, consts.len()));
            rendered.push_str(&format!("// @item {} ({}:{})\n{}\n", key, short(&plan.file), cx.line_of(s), t));
            continue;
        }
        let two_pass = plan.inherent_copy.iter().any(|k| *k == key);
        if two_pass {
            // pass A: the original trait impl, untouched, external
            cx.force_plain = true;
            cx.visit_item(item);
            cx.force_plain = false;
            let parents = compute_parents(&cx.edits);
            rendered.push_str(&format!("// @item {} ({}:{})\n", key, short(&plan.file), cx.line_of(s)));
            rendered.push_str(&render(&src, &cx.edits, &parents, s, e, None));
            rendered.push_str("\n\n");
            cx.edits.clear();
            cx.copy_mode = true;
            cx.out.log.push(format!("{}:{} R16 `{}`: methods also emitted as inherent copies vx_<name> carrying the contract", short(&plan.file), cx.line_of(s), key));
        }
        if let Some(a) = plan.item_attrs.get(&key) {
            cx.insert(s, format!("{}\n", a));
        }
        if plan.trait_sized.iter().any(|k| *k == key) {
            if let syn::Item::Trait(t) = item {
                if t.supertraits.is_empty() && t.colon_token.is_none() {
                    let at = if t.generics.params.is_empty() {
                        t.ident.span().byte_range().end
                    } else {
                        t.generics.span().byte_range().end
                    };
                    cx.insert(at, ": Sized".into());
                    cx.out.log.push(format!("{}:{} R15 `{}` gets explicit `: Sized`", short(&plan.file), cx.line_of(s), key));
                }
            }
        }
        if let Some(t) = plan.item_inject.get(&key) {
            let brace = match item {
                syn::Item::Trait(t) => Some(t.brace_token.span.open().byte_range().start),
                syn::Item::Impl(t) => Some(t.brace_token.span.open().byte_range().start),
                _ => None,
            };
            match brace {
                Some(b) => cx.insert(b + 1, format!("\n{}\n", t)),
                None => cx.out.errors.push(format!("inject: `{}` is not a trait or impl", key)),
            }
        }
        if let syn::Item::Macro(m) = item {
            // R6 inside macro_rules bodies (token level: the body is not parsed as Rust by syn)
            fn walk(ts: proc_macro2::TokenStream, out: &mut Vec<(usize, usize, String)>) {
                for t in ts {
                    match t {
                        proc_macro2::TokenTree::Group(g) => walk(g.stream(), out),
                        proc_macro2::TokenTree::Ident(i) => {
                            let n = i.to_string();
                            if n == "int" || n == "nat" {
                                let r = i.span().byte_range();
                                out.push((r.start, r.end, format!("{}_", n)));
                            }
                        }
                        _ => {}
                    }
                }
            }
            let mut hits = Vec::new();
            walk(m.mac.tokens.clone(), &mut hits);
            for (a, b, t) in hits {
                if b > a {
                    cx.replace(a, b, vec![Part::Lit(t)]);
                    cx.out.log.push(format!("{}:{} R6 identifier renamed inside macro body (Verus keyword)", short(&plan.file), cx.line_of(a)));
                }
            }
        }
        cx.visit_item(item);
        cx.copy_mode = false;
        let parents = compute_parents(&cx.edits);
        rendered.push_str(&format!("// @item {} ({}:{})\n", key, short(&plan.file), cx.line_of(s)));
        rendered.push_str(&render(&src, &cx.edits, &parents, s, e, None));
        rendered.push_str("\n\n");
        let pend: Vec<(usize, Outline, String, Vec<String>, Vec<(String, usize, usize)>)> = cx.pending_outlines.drain(..).collect();
        for (idx, o, from, lits, rebinds) in pend {
            let mut lit_entry = String::new();
            if plan.strlit_facts && plan.strlit_named && !lits.is_empty() {
                lit_entry.push_str("    proof { // generated: literal == word-constant equations (R18)\n");
                for l in &lits {
                    let name = wname(l);
                    lit_entry.push_str(&format!("        vx_lit_{name}(); // {:?}\n", l));
                    if !plan.known_lits.iter().any(|k| k == l) {
                        let chars: Vec<String> = l.chars().map(|c| format!("{:?}", c)).collect();
                        let body = if chars.is_empty() { "Seq::<char>::empty()".to_string() } else { format!("seq![{}]", chars.join(", ")) };
                        let lit = format!("{:?}", l);
                        cx.helpers.push(format!(
                            "// word constant for a literal of the code that the overlay does not name (R18)\npub open spec fn w_{name}() -> Seq<char> {{ {body} }}\npub proof fn vx_lit_{name}() ensures {lit}@ == w_{name}() {{ reveal_strlit({lit}); assert({lit}@ =~= {body}); }}\n"
                        ));
                    }
                }
                lit_entry.push_str("    }\n");
                cx.out.log.push(format!("{}:{} R18 {}::{} entry equations for {} string literals", short(&plan.file), cx.line_of(cx.edits[idx].start), o.method_of, o.name, lits.len()));
            }
            let (os, oe) = (cx.edits[idx].start, cx.edits[idx].end);
            let mut body = String::new();
            for (name, is, ie) in &rebinds {
                // the initializer sits at the top level of the enclosing function: render it with the rewrites that apply there
                let pi = cx.edits.iter().enumerate().filter(|(_, ed)| ed.start <= *is && *ie <= ed.end && !(ed.start == *is && ed.end == *ie)).map(|(i, _)| i).max_by_key(|&i| cx.edits[i].start);
                body.push_str(&format!("let {} = {};\n", name, render(&src, &cx.edits, &parents, *is, *ie, pi)));
            }
            body.push_str(&render(&src, &cx.edits, &parents, os, oe, Some(idx)));
            let okey = format!("{}::{}", o.method_of, o.name);
            rendered.push_str(&format!(
                "// outlined from {} (R21): the body below is the `match` expression of that function, moved verbatim\nimpl {} {{\n// @fn {}\n{}\nfn {}{}\n{}\n{{\n{}\n{}\n}}\n}}\n\n",
                from, o.method_of, okey, o.attrs, o.name, o.sig, o.spec, format!("{}{}", lit_entry, o.entry), body
            ));
            cx.out.fns.push(FnInfo {
                key: okey,
                line: cx.line_of(os),
                end_line: cx.line_of(oe),
                contracted: true,
                external: false,
                loops: 0,
                decl: false,
            });
        }
        cx.edits.clear();
    }
    // drop individual functions listed in plan.drop (by fn key): replace by nothing
    // (handled by callers through `external` in practice)
    for (k, c_) in plan.contracts.iter() {
        if !cx.used_contracts.contains(k) && c_.optional {
            cx.out.log.push(format!("{}: optional helper `{}` is not in the source any more: its contract is dropped", short(&plan.file), k));
            continue;
        }
        if !cx.used_contracts.contains(k) {
            cx.out.errors.push(format!("lost anchor: contracted function `{}` not found in {}", k, short(&plan.file)));
        }
    }
    for (i, h) in plan.hoists.iter().enumerate() {
        if !cx.used_hoists.contains(&i) {
            // the function may be external in this unit
            let ext = cx.out.fns.iter().any(|f| f.key == h.in_fn && f.external);
            if !ext {
                cx.out.warnings.push(format!("hoist rule {} (chain #{} of {}) not applied", h.name, h.nth, h.in_fn));
            }
        }
    }
    for o in plan.outlines.iter() {
        if !cx.used_outlines.contains(&o.name) {
            let ext = cx.out.fns.iter().any(|f| f.key == o.in_fn && f.external);
            if !ext {
                cx.out.errors.push(format!("lost anchor: no match with >= {} arms found in `{}` to outline as {}", o.min_arms, o.in_fn, o.name));
            }
        }
    }
    for h in plan.expr_hoists.iter() {
        if !cx.used_expr_hoists.contains(&h.name) {
            let ext = cx.out.fns.iter().any(|f| f.key == h.in_fn && f.external);
            if !ext {
                cx.out.warnings.push(format!("expression hoist {} in {} not applied (text not found)", h.name, h.in_fn));
            }
        }
    }
    let text = rendered;
    let mut helpers = String::new();
    let mut seen = HashSet::new();
    for h in &cx.helpers {
        if seen.insert(h.clone()) {
            helpers.push_str(h);
            helpers.push('\n');
        }
    }
    cx.out.text = text;
    cx.out.helpers = helpers;
    println!("{}", serde_json::to_string(&cx.out).unwrap());
}
