// ---------------------------------------------------------------------------------------------
// L0: assumed contracts on std (everything in this file is TRUSTED, listed in evidence), plus a
// few small *verified* helpers that rewrite rules call (vx_eq_bytes, vx_cat2).
// ---------------------------------------------------------------------------------------------

pub assume_specification<T> [<[T]>::swap_with_slice] (a: &mut [T], b: &mut [T])
    requires old(a)@.len() == old(b)@.len(),
    ensures final(a)@ == old(b)@, final(b)@ == old(a)@;

pub open spec fn vx_is_ascii(s: Seq<u8>) -> bool { forall|i: int| 0 <= i < s.len() ==> #[trigger] s[i] < 128u8 }
pub open spec fn vx_bytes_as_chars(s: Seq<u8>) -> Seq<char> { Seq::new(s.len(), |i: int| s[i] as char) }

#[verifier::external_type_specification]
#[verifier::external_body]
pub struct ExUtf8Error(std::str::Utf8Error);

pub assume_specification [std::str::from_utf8] (b: &[u8]) -> (r: Result<&str, std::str::Utf8Error>)
    ensures vx_is_ascii(b@) ==> (r is Ok && r->Ok_0@ =~= vx_bytes_as_chars(b@));

/// ASSUMED: Option::map_or applies the closure to the payload, or returns the default
pub assume_specification<T, U, F: FnOnce(T) -> U> [Option::<T>::map_or] (o: Option<T>, default: U, f: F) -> (r: U)
    requires o is Some ==> f.requires((o->Some_0,)),
    ensures o is None ==> r == default,
            o is Some ==> f.ensures((o->Some_0,), r);
pub assume_specification [str::repeat] (s: &str, n: usize) -> (r: String)
    ensures s@.len() == 1 ==> r@ =~= Seq::new(n as nat, |i: int| s@[0]);

/// digit literals as spec sequences, and verified helpers used by rule R4 (`b"xy"` -> `&vx_bytes2(b'x', b'y')`)
pub open spec fn d1(a: u8) -> Seq<u8> { seq![a] }
pub open spec fn d2(a: u8, b: u8) -> Seq<u8> { seq![a, b] }
pub open spec fn d3(a: u8, b: u8, c: u8) -> Seq<u8> { seq![a, b, c] }
pub open spec fn d4(a: u8, b: u8, c: u8, d: u8) -> Seq<u8> { seq![a, b, c, d] }
pub open spec fn vx_is_digit(c: u8) -> bool { 48u8 <= c && c <= 57u8 }
pub open spec fn vx_all_digits(s: Seq<u8>) -> bool { forall|i: int| 0 <= i < s.len() ==> vx_is_digit(#[trigger] s[i]) }
pub fn vx_bytes1(a: u8) -> (r: [u8; 1]) ensures r@ == d1(a), vx_is_digit(a) ==> vx_all_digits(r@) { proof { reveal(vx_all_digits); reveal(d1); } let r = [a]; assert(r@ =~= seq![a]); r }
pub fn vx_bytes2(a: u8, b: u8) -> (r: [u8; 2]) ensures r@ == d2(a, b), (vx_is_digit(a) && vx_is_digit(b)) ==> vx_all_digits(r@) { proof { reveal(vx_all_digits); reveal(d2); } let r = [a, b]; assert(r@ =~= seq![a, b]); r }
pub fn vx_bytes3(a: u8, b: u8, c: u8) -> (r: [u8; 3]) ensures r@ == d3(a, b, c), (vx_is_digit(a) && vx_is_digit(b) && vx_is_digit(c)) ==> vx_all_digits(r@) { proof { reveal(vx_all_digits); reveal(d3); } let r = [a, b, c]; assert(r@ =~= seq![a, b, c]); r }

pub fn vx_bytes4(a: u8, b: u8, c: u8, d: u8) -> (r: [u8; 4]) ensures r@ == d4(a, b, c, d), (vx_is_digit(a) && vx_is_digit(b) && vx_is_digit(c) && vx_is_digit(d)) ==> vx_all_digits(r@) { proof { reveal(vx_all_digits); reveal(d4); } let r = [a, b, c, d]; assert(r@ =~= seq![a, b, c, d]); r }
/// lexicographic order on byte strings (the `Ord` of slices)
pub open spec fn lex_lt(a: Seq<u8>, b: Seq<u8>) -> bool decreases a.len() {
    if b.len() == 0 { false } else if a.len() == 0 { true } else if a[0] < b[0] { true } else if a[0] > b[0] { false }
    else { lex_lt(a.subrange(1, a.len() as int), b.subrange(1, b.len() as int)) }
}
/// rule R4c: `a < b` on byte slices (TRUSTED: std's slice ordering is lexicographic)
#[verifier::external_body] pub fn vx_lt_bytes(a: &[u8], b: &[u8]) -> (r: bool) ensures r == lex_lt(a@, b@) { a < b }

// ---- char / str classification methods outside the verifier's std library: uninterpreted, so that code using them can at
// least be read; any contract that depends on their meaning then fails or holds on the strength of the other facts alone
pub uninterp spec fn ch_is_ascii(c: char) -> bool;
pub uninterp spec fn ch_is_ascii_alphanumeric(c: char) -> bool;
pub uninterp spec fn ch_is_ascii_alphabetic(c: char) -> bool;
pub uninterp spec fn ch_is_ascii_digit(c: char) -> bool;
pub uninterp spec fn ch_is_ascii_whitespace(c: char) -> bool;
pub uninterp spec fn ch_is_ascii_uppercase(c: char) -> bool;
pub uninterp spec fn ch_is_ascii_lowercase(c: char) -> bool;
pub uninterp spec fn ch_is_uppercase(c: char) -> bool;
pub uninterp spec fn ch_is_lowercase(c: char) -> bool;
pub uninterp spec fn ch_is_numeric(c: char) -> bool;
pub assume_specification [char::is_ascii] (c: &char) -> (r: bool) ensures r == ch_is_ascii(*c);
pub assume_specification [char::is_ascii_alphanumeric] (c: &char) -> (r: bool) ensures r == ch_is_ascii_alphanumeric(*c);
pub assume_specification [char::is_ascii_alphabetic] (c: &char) -> (r: bool) ensures r == ch_is_ascii_alphabetic(*c);
pub assume_specification [char::is_ascii_digit] (c: &char) -> (r: bool) ensures r == ch_is_ascii_digit(*c);
pub assume_specification [char::is_ascii_whitespace] (c: &char) -> (r: bool) ensures r == ch_is_ascii_whitespace(*c);
pub assume_specification [char::is_ascii_uppercase] (c: &char) -> (r: bool) ensures r == ch_is_ascii_uppercase(*c);
pub assume_specification [char::is_ascii_lowercase] (c: &char) -> (r: bool) ensures r == ch_is_ascii_lowercase(*c);
pub assume_specification [char::is_uppercase] (c: char) -> (r: bool) ensures r == ch_is_uppercase(c);
pub assume_specification [char::is_lowercase] (c: char) -> (r: bool) ensures r == ch_is_lowercase(c);
pub assume_specification [char::is_numeric] (c: char) -> (r: bool) ensures r == ch_is_numeric(c);
pub uninterp spec fn str_ascii_lower(s: Seq<char>) -> Seq<char>;
pub uninterp spec fn str_ascii_upper(s: Seq<char>) -> Seq<char>;
pub uninterp spec fn str_upper(s: Seq<char>) -> Seq<char>;
pub assume_specification [str::to_ascii_lowercase] (s: &str) -> (r: String) ensures r@ == str_ascii_lower(s@);
pub assume_specification [str::to_ascii_uppercase] (s: &str) -> (r: String) ensures r@ == str_ascii_upper(s@);
pub assume_specification [str::to_uppercase] (s: &str) -> (r: String) ensures r@ == str_upper(s@);

/// rule R25: stands for dbg!/println!/eprintln!/print!/eprint! in verified code. Interpreters must not write to the process's
/// standard streams, so the call is specified as unreachable.
#[verifier::external_body] pub fn vx_std_stream_output()
    requires false,                                                            // #C14 no output on stdout / stderr
{ }

/// rule R24: `==` between a str and a str literal (ASSUMED: str equality is equality of the character sequences,
/// which is also what vstd states for `str`; the helper avoids vstd's generic PartialEq axioms, which are costly in long chains)
#[verifier::external_body] pub fn vx_eq_str(a: &str, b: &str) -> (r: bool) ensures r == (a@ == b@) { a == b }

/// verified helper used by rule R4b (comparison of a byte slice with a byte-string literal)
pub fn vx_eq_bytes(a: &[u8], b: &[u8]) -> (r: bool)
    ensures r == (a@ == b@)
{
    if a.len() != b.len() { return false; }
    let mut i: usize = 0;
    while i < a.len()
        invariant 0 <= i <= a.len(), a.len() == b.len(),
                  forall|j: int| 0 <= j < i ==> a@[j] == b@[j],
        decreases a.len() - i,
    {
        if a[i] != b[i] { return false; }
        i += 1;
    }
    assert(a@ =~= b@);
    true
}

/// bridging lemmas: facts that follow from vstd's axioms but that the SMT solver does not find on its
/// own because vstd states results through `subrange(..) == ..`; all are PROVED here (not assumed).
pub mod vxb {
    use vstd::prelude::*;
    pub broadcast proof fn vx_subrange_index<T>(s: Seq<T>, n: int, i: int)
        requires 0 <= i < n <= s.len()
        ensures #![trigger s.subrange(0, n), s[i]] s.subrange(0, n)[i] == s[i]
    {}
}
